// Package refxss is an independently written executable specification of the
// HTML5 tokenizer used for XSS detection and of the classification rules.
// Loop-and-switch over an explicit state enum, byte offsets only.
package refxss

type Ctx int

const (
	Data Ctx = iota
	Unquoted
	SingleQ
	DoubleQ
	BackQ
)

type Kind int

const (
	DataText Kind = iota
	TagNameOpen
	TagNameClose
	TagNameSelfClose
	TagData
	TagClose
	AttrName
	AttrValue
	TagComment
	DocType
)

type Tok struct {
	K        Kind
	Off, Len int
}

type st int

const (
	sEOF st = iota
	sData
	sTagOpen
	sEndTagOpen
	sTagName
	sTagNameClose
	sSelfClosing
	sBeforeAttrName
	sAttrName
	sAfterAttrName
	sBeforeAttrValue
	sValNoQuote
	sValSQ
	sValDQ
	sValBQ
	sAfterQuotedValue
	sMarkupDecl
	sBogus
	sBogusPct
	sComment
	sCData
	sDoctype
)

func white(b byte) bool { return b == ' ' || (b >= 9 && b <= 13) }
func alpha(b byte) bool { return (b|0x20) >= 'a' && (b|0x20) <= 'z' }

func find(s string, from int, b byte) int {
	for i := from; i < len(s); i++ {
		if s[i] == b {
			return i
		}
	}
	return -1
}

// Tokens returns the token stream of s from start context c (at most max tokens).
func Tokens(s string, c Ctx, max int) []Tok {
	n := len(s)
	p := 0
	closing := false
	cur := map[Ctx]st{Data: sData, Unquoted: sBeforeAttrName, SingleQ: sValSQ, DoubleQ: sValDQ, BackQ: sValBQ}[c]
	var out []Tok
	emit := func(k Kind, off, l int, next st) {
		out = append(out, Tok{k, off, l})
		cur = next
	}
	// skipWS advances over NUL/space/TAB/LF/VT/FF/CR; returns -1 at end
	skipWS := func() int {
		for p < n && (s[p] == 0 || white(s[p])) {
			p++
		}
		if p >= n {
			return -1
		}
		return int(s[p])
	}
	for len(out) < max {
		before := len(out)
		// run state transitions until a token is emitted or the machine stops
		for len(out) == before {
			switch cur {
			case sEOF:
				return out
			case sData:
				lt := find(s, p, '<')
				if lt < 0 {
					if n-p == 0 {
						return out
					}
					emit(DataText, p, n-p, sEOF)
					break
				}
				start := p
				p = lt + 1
				cur = sTagOpen
				if lt-start > 0 {
					emit(DataText, start, lt-start, sTagOpen)
				}
			case sTagOpen:
				if p >= n {
					return out
				}
				switch b := s[p]; {
				case b == '!':
					p++
					cur = sMarkupDecl
				case b == '/':
					p++
					closing = true
					cur = sEndTagOpen
				case b == '?':
					p++
					cur = sBogus
				case b == '%':
					p++
					cur = sBogusPct
				case alpha(b) || b == 0:
					// port rule P7 (repair F9): a start tag is never a close tag; upstream keeps the flag of an
					// earlier end tag that had blanks, '/' or attributes before its '>'
					closing = false
					cur = sTagName
				default:
					if p == 0 {
						cur = sData
					} else {
						emit(DataText, p-1, 1, sData)
					}
				}
			case sEndTagOpen:
				if p >= n {
					return out
				}
				switch b := s[p]; {
				case b == '>':
					cur = sData
				case alpha(b):
					cur = sTagName
				default:
					closing = false
					cur = sBogus
				}
			case sTagName:
				i := p
				for i < n && !(white(s[i]) || s[i] == '/' || s[i] == '>') {
					i++
				}
				switch {
				case i >= n:
					emit(TagNameOpen, p, n-p, sEOF)
				case white(s[i]):
					emit(TagNameOpen, p, i-p, sBeforeAttrName)
					p = i + 1
				case s[i] == '/':
					emit(TagNameOpen, p, i-p, sSelfClosing)
					p = i + 1
				default: // '>'
					if closing {
						closing = false
						emit(TagClose, p, i-p, sData)
						p = i + 1
					} else {
						emit(TagNameOpen, p, i-p, sTagNameClose)
						p = i
					}
				}
			case sTagNameClose:
				closing = false
				off := p
				p++
				if p < n {
					emit(TagNameClose, off, 1, sData)
				} else {
					emit(TagNameClose, off, 1, sEOF)
				}
			case sSelfClosing:
				if p >= n {
					return out
				}
				if s[p] == '>' {
					emit(TagNameSelfClose, p-1, 2, sData)
					p++
				} else {
					cur = sBeforeAttrName
				}
			case sBeforeAttrName:
				switch skipWS() {
				case -1:
					return out
				case '/':
					p++
					cur = sSelfClosing
				case '>':
					emit(TagNameClose, p, 1, sData)
					p++
				default:
					cur = sAttrName
				}
			case sAttrName:
				i := p + 1
				for i < n && !(white(s[i]) || s[i] == '/' || s[i] == '=' || s[i] == '>') {
					i++
				}
				switch {
				case i >= n:
					emit(AttrName, p, n-p, sEOF)
					p = n
				case white(s[i]):
					emit(AttrName, p, i-p, sAfterAttrName)
					p = i + 1
				case s[i] == '/':
					emit(AttrName, p, i-p, sSelfClosing)
					p = i + 1
				case s[i] == '=':
					emit(AttrName, p, i-p, sBeforeAttrValue)
					p = i + 1
				default:
					emit(AttrName, p, i-p, sTagNameClose)
					p = i
				}
			case sAfterAttrName:
				switch skipWS() {
				case -1:
					return out
				case '/':
					p++
					cur = sSelfClosing
				case '=':
					p++
					cur = sBeforeAttrValue
				case '>':
					cur = sTagNameClose
				default:
					cur = sAttrName
				}
			case sBeforeAttrValue:
				switch skipWS() {
				case -1:
					return out
				case '"':
					cur = sValDQ
				case '\'':
					cur = sValSQ
				case '`':
					cur = sValBQ
				default:
					cur = sValNoQuote
				}
			case sValNoQuote:
				i := p
				for i < n && !(white(s[i]) || s[i] == '>') {
					i++
				}
				switch {
				case i >= n:
					emit(AttrValue, p, n-p, sEOF)
				case s[i] == '>':
					emit(AttrValue, p, i-p, sTagNameClose)
					p = i
				default:
					emit(AttrValue, p, i-p, sBeforeAttrName)
					p = i + 1
				}
			case sValSQ, sValDQ, sValBQ:
				q := map[st]byte{sValSQ: '\'', sValDQ: '"', sValBQ: '`'}[cur]
				if p > 0 {
					p++ // the real opening quote
				}
				e := find(s, p, q)
				if e < 0 {
					emit(AttrValue, p, n-p, sEOF)
				} else {
					emit(AttrValue, p, e-p, sAfterQuotedValue)
					p = e + 1
				}
			case sAfterQuotedValue:
				if p >= n {
					return out
				}
				switch b := s[p]; {
				case white(b):
					p++
					cur = sBeforeAttrName
				case b == '/':
					p++
					cur = sSelfClosing
				case b == '>':
					emit(TagNameClose, p, 1, sData)
					p++
				default:
					cur = sBeforeAttrName
				}
			case sMarkupDecl:
				rem := n - p
				switch {
				case rem >= 7 && lowerASCII(s[p:p+7]) == "doctype":
					cur = sDoctype
				case rem >= 7 && s[p:p+7] == "[CDATA[":
					p += 7
					cur = sCData
				case rem >= 2 && s[p:p+2] == "--":
					p += 2
					cur = sComment
				default:
					cur = sBogus
				}
			case sBogus:
				gt := find(s, p, '>')
				if gt < 0 {
					emit(TagComment, p, n-p, sEOF)
					p = n
				} else {
					emit(TagComment, p, gt-p, sData)
					p = gt + 1
				}
			case sBogusPct:
				e := -1
				for i := p; i+1 < n; i++ {
					if s[i] == '%' && s[i+1] == '>' {
						e = i
						break
					}
				}
				if e < 0 {
					emit(TagComment, p, n-p, sEOF)
					p = n
				} else {
					emit(TagComment, p, e-p, sData)
					p = e + 2
				}
			case sComment:
				// terminator: '-' NUL* ('-'|'!') '>' where the first dash
				// still has at least two bytes after it
				e, after := -1, 0
				for i := p; i+3 <= n; i++ {
					if s[i] != '-' {
						continue
					}
					j := i + 1
					for j < n && s[j] == 0 {
						j++
					}
					if j >= n {
						break // dash followed only by NULs: runs to end of input
					}
					if s[j] != '-' && s[j] != '!' {
						continue
					}
					j++
					if j >= n {
						break
					}
					if s[j] != '>' {
						continue
					}
					e, after = i, j+1
					break
				}
				if e < 0 {
					emit(TagComment, p, n-p, sEOF)
				} else {
					emit(TagComment, p, e-p, sData)
					p = after
				}
			case sCData:
				e := -1
				for i := p; i+3 <= n; i++ {
					if s[i] == ']' && s[i+1] == ']' && s[i+2] == '>' {
						e = i
						break
					}
				}
				if e < 0 {
					emit(DataText, p, n-p, sEOF)
				} else {
					emit(DataText, p, e-p, sData)
					p = e + 3
				}
			case sDoctype:
				gt := find(s, p, '>')
				if gt < 0 {
					emit(DocType, p, n-p, sEOF)
				} else {
					emit(DocType, p, gt-p, sData)
					p = gt + 1
				}
			}
		}
	}
	return out
}

func lowerASCII(s string) string {
	b := []byte(s)
	for i := range b {
		if b[i] >= 'A' && b[i] <= 'Z' {
			b[i] += 32
		}
	}
	return string(b)
}

func upperASCII(s string) string {
	b := []byte(s)
	for i := range b {
		if b[i] >= 'a' && b[i] <= 'z' {
			b[i] -= 32
		}
	}
	return string(b)
}
