package refxss

type AttrType int

const (
	None AttrType = iota
	Black
	URL
	Style
	Indirect
)

type Lists struct {
	Tags   map[string]bool
	Attrs  map[string]AttrType
	Events map[string]AttrType
}

// norm: drop NUL bytes, ASCII upper-case
func norm(s string) string {
	b := make([]byte, 0, len(s))
	for i := 0; i < len(s); i++ {
		c := s[i]
		if c == 0 {
			continue
		}
		if c >= 'a' && c <= 'z' {
			c -= 32
		}
		b = append(b, c)
	}
	return string(b)
}

func (l *Lists) BlackTag(name string) bool {
	if len(name) < 3 { // raw length, NULs included
		return false
	}
	u := norm(name)
	return l.Tags[u] || u == "SVT" || u == "XSL"
}

func (l *Lists) BlackAttr(name string) AttrType {
	u := norm(name)
	if len(u) < 2 {
		return None
	}
	if len(u) >= 5 {
		if u == "XMLNS" || u == "XLINK" {
			return Black
		}
		if u[:2] == "ON" {
			if t, ok := l.Events[u[2:]]; ok {
				return t
			}
		}
	}
	if t, ok := l.Attrs[u]; ok {
		return t
	}
	return None
}

func hexv(c byte) int {
	switch {
	case c >= '0' && c <= '9':
		return int(c - '0')
	case c >= 'a' && c <= 'f':
		return int(c-'a') + 10
	case c >= 'A' && c <= 'F':
		return int(c-'A') + 10
	}
	return -1
}

const maxRef = 0x1000FF

// Decode returns the value of the character (reference) at the head of s and
// the number of bytes it occupies. (-1,0) for empty s.
func Decode(s string) (int, int) {
	n := len(s)
	if n == 0 {
		return -1, 0
	}
	if s[0] != '&' || n < 3 || s[1] != '#' {
		if s[0] == '&' {
			return '&', 1
		}
		return int(s[0]), 1
	}
	base, i := 10, 2
	if s[2] == 'x' || s[2] == 'X' {
		base, i = 16, 3
	}
	digit := func(c byte) int {
		if base == 16 {
			return hexv(c)
		}
		if c >= '0' && c <= '9' {
			return int(c - '0')
		}
		return -1
	}
	if i >= n || digit(s[i]) < 0 {
		return '&', 1
	}
	v := 0
	first := true
	for i < n {
		if s[i] == ';' {
			return v, i + 1
		}
		d := digit(s[i])
		if d < 0 {
			return v, i
		}
		v = v*base + d
		if !first && v > maxRef {
			return '&', 1
		}
		first = false
		i++
	}
	return v, i
}

var schemes = []string{"DATA", "VIEW-SOURCE", "VBSCRIPT", "JAVA"}

// BlackURL: port rule - the normalised decoded value CONTAINS a scheme word.
func BlackURL(v string, prefixOnly bool) bool {
	i := 0
	for i < len(v) && (v[i] <= 32 || v[i] >= 127) {
		i++
	}
	v = v[i:]
	var dec []byte
	lead := true
	for len(v) > 0 {
		c, k := Decode(v)
		v = v[k:]
		if lead && c <= 32 {
			continue
		}
		lead = false
		if c == 0 || c == 10 {
			continue
		}
		if c >= 'a' && c <= 'z' {
			c -= 32
		}
		dec = append(dec, byte(c))
	}
	d := string(dec)
	for _, sc := range schemes {
		if prefixOnly {
			if len(d) >= len(sc) && d[:len(sc)] == sc {
				return true
			}
			continue
		}
		for j := 0; j+len(sc) <= len(d); j++ {
			if d[j:j+len(sc)] == sc {
				return true
			}
		}
	}
	return false
}

func has(s string, b byte) bool { return find(s, 0, b) >= 0 }

// IsXSSCtx is the verdict for one injection context.
func (l *Lists) IsXSSCtx(s string, c Ctx) bool {
	attr := None
	for _, t := range Tokens(s, c, len(s)+2) {
		txt := s[t.Off : t.Off+t.Len]
		if t.K != AttrValue {
			attr = None
		}
		switch t.K {
		case DocType:
			return true
		case TagNameOpen:
			if l.BlackTag(txt) {
				return true
			}
		case AttrName:
			attr = l.BlackAttr(txt)
		case AttrValue:
			switch attr {
			case Black, Style:
				return true
			case URL:
				if BlackURL(txt, false) {
					return true
				}
			case Indirect:
				if l.BlackAttr(txt) == Black {
					return true
				}
			}
			attr = None
		case TagComment:
			if has(txt, '`') {
				return true
			}
			if t.Len > 3 {
				if txt[0] == '[' && upperASCII(txt[1:3]) == "IF" {
					return true
				}
				if upperASCII(txt[0:3]) == "XML" {
					return true
				}
			}
			if t.Len > 5 {
				// first six bytes of the token's tail (may run past the token), NULs dropped
				u := norm(s[t.Off : t.Off+6])
				if u == "IMPORT" || u == "ENTITY" {
					return true
				}
			}
		}
	}
	return false
}

func (l *Lists) IsXSS(s string) bool {
	for c := Data; c <= BackQ; c++ {
		if l.IsXSSCtx(s, c) {
			return true
		}
	}
	return false
}
