// Package gen holds the input generators shared by the property checks:
// byte-class alphabets for bounded-exhaustive enumeration, fragment grammars
// for rapid, the repository corpus and mutators. It does not import the
// library under test.
package gen

import (
	"bufio"
	"os"
	"path/filepath"
	"regexp"
	"sort"
	"strconv"
	"strings"

	"pgregory.net/rapid"
)

// ---------------------------------------------------------------------------
// alphabets

// AlphaSQL: one representative per byte role in the SQL dispatch table and in
// every look-ahead test (both ends of range tests included).
var AlphaSQL = []string{
	"\x00", "\n", " ", "\t", "\v", "\xa0", "'", "\"", "`", "\\", "#", "$", "-", "/", "*", "!", ".",
	"0", "1", "9", "e", "E", "x", "b", "q", "n", "u", "N", "d", "f", "&", "(", ")", "[", "]", "{", "}",
	",", ";", ":", "=", "<", ">", "|", "@", "?", "+", "%", "~", "^", "a", "_", "\x7f", "\x80", "\xe9",
}

// CoreSQL: the symbols that open, close or escape a construct.
var CoreSQL = []string{
	"\x00", " ", "'", "\"", "`", "\\", "#", "$", "-", "/", "*", "!", ".", "1", "e", "x", "q", "n", "(", ")", "@", "a", "=", "\n",
}

var AlphaHTML = []string{
	"<", ">", "/", "=", "'", "\"", "`", "!", "-", "?", "%", "[", "]", "&", "#", ";", "x", "X", "0", "1", "a", "f", "z",
	"\x00", " ", "\n", "\t", "\f", "\x7f", "\x80", "\xff",
}

var CoreHTML = []string{"<", ">", "/", "=", "'", "\"", "`", "!", "-", "%", "a", "\x00", " ", "?"}

// ---------------------------------------------------------------------------
// fragment grammars

var FragSQL = []string{
	// quotes and escapes
	"'", "\"", "`", "\\", "''", "\\'", "\\\\'", "\"\"", "\\\"", "``",
	// white space
	" ", "\t", "\n", "\r", "\v", "\f", "\x00", "\xa0", "\x7f",
	// numbers
	"1", "0", "9", "42", "0x1f", "0X1F", "0x", "0b1", "0B01", "0b", "1e5", "1E5", "1e", "1e+", "1e-3", "1.5f", "1.5F", "1.5d", "1d", "1f", "1fUNION", "1.", ".", ".5", "1.e", ".e",
	"x'ff'", "X'FF'", "b'01'", "B'01'", "x'", "b'0", "x'fg'", "\\N", "\\n",
	// comments
	"--", "-- ", "--x", "#", "/*", "*/", "/*!", "/* */", "/**/", "/*/*", "/*x*/", "--\n",
	// operators
	"-", "+", "~", "!", "!!", "=", "<=>", "<>", "<=", ">=", "!=", "||", "&&", "::", ":", ":=", "|", "&", "^", "%", "*", "/", "<", ">", "<@", "!<",
	// punctuation
	";", ",", "(", ")", "((", "))", "{", "}", "[", "]", "[a]", "?", "@", "@@", "@a", "@@a", "@`a`", "@'a'", "@\"a\"", "$", "$$", "$a$", "$ab$", "$A$", "$1,000", "$1.5", "$.", "$.5",
	// q strings
	"q'(", ")'", "q'[", "]'", "Q'{", "}'", "q'<", ">'", "q'!", "!'", "q'a", "a'", "nq'[", "Nq'(", "NQ'<", "q'\xe9", "\xe9'", "q' ",
	// prefixed strings
	"n'", "N'", "e'", "E'", "u&'", "U&'", "u&", "b'", "x'",
	// keywords
	"select", "SELECT", "union", "UNION", "all", "distinct", "or", "OR", "and", "AND", "not", "NOT", "in", "IN", "like", "LIKE", "is", "null", "from", "into", "INTO", "outfile", "OUTFILE", "dumpfile",
	"user", "USER", "user_id", "user_name", "database", "password", "current_user", "current_date", "current_time", "current_timestamp", "localtime", "localtimestamp",
	"if", "IF", "sleep", "benchmark", "char", "collate", "COLLATE", "latin1_bin", "utf8_general_ci", "int", "INT", "varchar", "case", "when", "then", "else", "end",
	"sp_password", "foo", "a", "b", "x", "_", "a_b", "`a`", "`select`", "`sleep`", "a.b", "select.", "select`", "sleep`", "information_schema.tables",
	"group by", "group", "order", "by", "order by", "having", "limit", "exec", "execute", "waitfor", "delay", "waitfor delay", "cast", "as", "binary", "natural", "join", "left", "cross", "div", "mod", "xor", "between", "true", "false",
	"table_name", "load_file", "version", "concat", "declare", "begin", "drop", "table", "insert", "update", "delete", "create", "alter", "merge", "intersect", "except", "minus", "top", "percent", "procedure", "analyse",
	"is not", "not in", "NOT IN", "not like", "NOT LIKE", "not between", "sounds like", "in boolean mode", "boolean", "mode", "for update", "own3d by", "at time zone", "rollup", "with", "with rollup", "next value for",
	"pg_sleep", "utl_http", "dbms_pipe.receive_message", "extractvalue", "updatexml", "ascii", "substring", "@@version", "xp_cmdshell", "shutdown", "nvarchar", "exists",
	// bytes
	"\xe9", "\x80", "\xff", "\xc5\xbf", "\xc4\xb1",
	// long runs crossing the 31-byte clip
	"aaaaaaaaaaaaaaaaaaaaaaaaaaaaaaaaaaaaaaaa", "12345678901234567890123456789012345", "'aaaaaaaaaaaaaaaaaaaaaaaaaaaaaaaaaaaa'", "selectselectselectselectselectselect", "aaaaaaaaaaaaaaaaaaaaaaaaaaaaaa", "aaaaaaaaaaaaaaaaaaaaaaaaaaaaaaa", "aaaaaaaaaaaaaaaaaaaaaaaaaaaaaaaa",
}

var FragHTML = []string{
	"<", ">", "/", "=", "'", "\"", "`", "!", "-", "--", "?", "%", "%>", "[", "]", "]]>", "]]", "&", "#", "&#", "&#x", "&#X", ";", "\x00", " ", "\t", "\n", "\r", "\f", "\v", "a", "x", "z", "Z", "A",
	"<!--", "-->", "-!>", "--!>", "-\x00->", "<![CDATA[", "<![cdata[", "<%", "<?", "<!", "<!doctype", "<!DOCTYPE ", "<!DocType x>", "</", "</a>", "</z", "<a>", "</>",
	"<script", "<script>", "</script>", "<ScRiPt", "<a ", "<a", "<b ", "<img ", "<svg", "<svt", "<xsl", "<xml", "<xss", "<style", "<iframe", "<base", "<meta", "<link", "<object", "<embed", "<applet", "<import", "<isindex", "<frame", "<frameset", "<noscript", "<vmlframe", "<handler", "<listener", "<comment",
	"href", "src", "style", "STYLE", "filter", "action", "formaction", "background", "dynsrc", "lowsrc", "poster", "folder", "from", "to", "by", "values", "handler", "xlink:href", "datasrc", "dataformatas", "attributename",
	"onclick", "onerror", "onload", "ONCLICK", "on", "onx", "onfoo", "onzoom", "onabort", "o\x00nclick", "xmlns", "xlink", "XMLNS", "xmlnsx", "xmlns:x",
	"javascript:", "JaVaScRiPt:", "java", "jav", "data:", "DATA", "vbscript:", "vbscript", "view-source:", "view-source", "metadata", "http://x", "&#106;", "&#x6a", "&#X4A;", "&#0", "&#00106", "&#1114367;", "&#x1000ff", "&#x1000FF;", "&#x100100", "&#1048831;", "&#1048832;", "&#9;", "&#x0A;", "&#10", "&#32;",
	"import", "IMPORT", "entity", "ENTITY", "xml", "XML", "?xml", "[if", "[IF", "[i", "svg", "iframe", "b", "=x", "/>", "\x7f", "\x80", "\xff", "=\"", "='", "=`", "= ",
	"alert(1)", "x=1", "a=b ", "onclick=alert(1)", "href=javascript:alert(1)", "style=x", "<a b='", "<a b=\"", "<a b=`",
}

// RuneAliases: multi-byte UTF-8 characters whose code point, truncated to its low 8 bits,
// equals a structural ASCII byte (U+013D -> '=', U+043C -> '<', ...). Code that iterates a
// string by rune and converts to byte aliases them onto the structural byte.
var RuneAliases = []string{"\u013c", "\u013d", "\u013e", "\u0122", "\u0127", "\u0160", "\u012f", "\u0120", "\u0100", "\u043c", "\u043d", "\u043e", "\u0422", "\u0427", "\u0460",
	"\u012d", "\u012a", "\u0123", "\u013b", "\u0140", "\u0124", "\u015c", "\u010a", "\u0109"}

// Confusables: non-ASCII look-alikes of structural ASCII bytes (fullwidth and small forms, typographic
// quotes, angle quotation marks). A normalisation step that folds them into ASCII makes plain text markup.
var Confusables = map[byte][]string{
	'<':  {"\uff1c", "\ufe64", "\u2039", "\u3008"},
	'>':  {"\uff1e", "\ufe65", "\u203a", "\u3009"},
	'=':  {"\uff1d", "\ufe66"},
	'\'': {"\uff07", "\u2018", "\u2019"},
	'"':  {"\uff02", "\u201c", "\u201d"},
	'`':  {"\uff40"},
	'/':  {"\uff0f", "\u2215"},
	'-':  {"\uff0d", "\u2010"},
	';':  {"\uff1b"},
	'#':  {"\uff03"},
}

// EncodedAliases: spellings of the structural bytes in the encodings that surround HTML and SQL in
// practice (URL, double URL, %u, HTML references, JavaScript / JSON / CSS / octal escapes, UTF-7,
// overlong UTF-8). The library does not decode any of them (only numeric references, and only inside
// URL attribute values), so a vector written with them is plain text; a "helpful" decoding step
// added to the scanners changes that.
var EncodedAliases = map[byte][]string{
	'<':  {"%3C", "%3c", "%253C", "%u003c", "&lt;", "&lt", "&LT;", "&#60;", "&#x3c;", "&#0060;", "\\u003c", "\\u003C", "\\x3c", "\\74", "\\074", "\\u{3c}", "\\3c ", "+ADw-", "+ADw", "\xc0\xbc", "\xe0\x80\xbc"},
	'>':  {"%3E", "%253E", "%u003e", "&gt;", "&gt", "&#62;", "&#x3e;", "\\u003e", "\\x3e", "\\76", "\\3e ", "+AD4-", "+AD4", "\xc0\xbe"},
	'=':  {"%3D", "%3d", "%253D", "%u003d", "&equals;", "&#61;", "&#x3d;", "\\u003d", "\\x3d", "\\75", "\\3d ", "+AD0-", "+AD0", "\xc0\xbd"},
	'\'': {"%27", "%2527", "%u0027", "&apos;", "&#39;", "&#x27;", "\\u0027", "\\x27", "\\47", "\\'", "+ACc-", "\xc0\xa7", "%EF%BC%87"},
	'"':  {"%22", "%2522", "%u0022", "&quot;", "&#34;", "&#x22;", "\\u0022", "\\x22", "\\42", "\\\"", "+ACI-", "\xc0\xa2"},
	' ':  {"%20", "+", "%2520", "%09", "%0a", "%0d", "%a0", "%00", "&nbsp;", "&#32;", "\\u0020", "\\x20", "\\t", "\\n", "+ACA-"},
	'-':  {"%2D", "%2d", "&#45;", "\\u002d", "\\x2d", "+AC0-"},
	'#':  {"%23", "&#35;", "\\u0023", "\\x23", "+ACM-"},
	'/':  {"%2F", "%2f", "&#47;", "&sol;", "\\/", "\\u002f", "\\x2f", "+AC8-"},
	';':  {"%3B", "&#59;", "&semi;", "\\u003b", "\\x3b"},
	'(':  {"%28", "&#40;", "&lpar;", "\\u0028", "\\x28"},
}

// Encode replaces every occurrence of each byte of set in s by its k-th encoded alias.
func Encode(s string, set string, k int) string {
	var sb strings.Builder
	for i := 0; i < len(s); i++ {
		if alts, ok := EncodedAliases[s[i]]; ok && strings.IndexByte(set, s[i]) >= 0 {
			sb.WriteString(alts[k%len(alts)])
		} else {
			sb.WriteByte(s[i])
		}
	}
	return sb.String()
}

// Confuse replaces every occurrence of the structural bytes in s by their k-th look-alike.
func Confuse(s string, k int) string {
	var sb strings.Builder
	for i := 0; i < len(s); i++ {
		if alts, ok := Confusables[s[i]]; ok {
			sb.WriteString(alts[k%len(alts)])
		} else {
			sb.WriteByte(s[i])
		}
	}
	return sb.String()
}

// Fullwidth maps ASCII letters and digits of s to their fullwidth forms (U+FF10.., U+FF21.., U+FF41..).
func Fullwidth(s string) string {
	var sb strings.Builder
	for i := 0; i < len(s); i++ {
		c := s[i]
		if (c >= '0' && c <= '9') || (c >= 'A' && c <= 'Z') || (c >= 'a' && c <= 'z') {
			sb.WriteRune(rune(c) - 0x20 + 0xFF00)
		} else {
			sb.WriteByte(c)
		}
	}
	return sb.String()
}

// UnicodeClassRunes: non-ASCII characters that the standard library's Unicode-aware helpers put in
// the same class as an ASCII structural byte: unicode.IsSpace / strings.TrimSpace / strings.Fields
// (spaces), unicode.IsDigit (digits), unicode.IsLetter / IsUpper / IsLower (letters). A scanner that
// replaces a byte-table test by one of these helpers changes what these characters mean.
var UnicodeSpaces = []string{"\u0085", "\u00a0", "\u1680", "\u2000", "\u2003", "\u200a", "\u2028", "\u2029", "\u202f", "\u205f", "\u3000"}
var UnicodeDigits = []string{"\u0661", "\u06f1", "\u0967", "\uff11", "\U0001d7cf"}
var UnicodeLetters = []string{"\u00e9", "\u00c9", "\u0430", "\u0391", "\uff41", "\uff21", "\u4e2d"}

// BOM and other multi-byte material placed at offset 0 or across the 31-byte clip.
const BOM = "\xef\xbb\xbf"

func init() {
	FragHTML = append(FragHTML, RuneAliases...)
	FragSQL = append(FragSQL, RuneAliases...)
	FragHTML = append(FragHTML, BOM, "\xc4\xb1", "\xc5\xbf", "\xc3\xa9", "\xf0\x9f\x98\x80")
	FragSQL = append(FragSQL, BOM, "\xc3\xa9", "\xf0\x9f\x98\x80", "\xe2\x82\xac", "natural", "right", "outer", "full", "waitfor delay", "order by", "group by", "join`", "into outfile`", "delay.", "by.", "{``", "{`", "{ ``")
}

// BytePiece draws one arbitrary byte as a string.
func bytePiece() *rapid.Generator[string] {
	return rapid.Custom(func(t *rapid.T) string { return string([]byte{rapid.Byte().Draw(t, "b")}) })
}

func fromFrags(frags []string, seps []string, maxPieces int) *rapid.Generator[string] {
	frag := rapid.SampledFrom(frags)
	piece := rapid.OneOf(frag, frag, frag, frag, frag, bytePiece())
	return rapid.Custom(func(t *rapid.T) string {
		ps := rapid.SliceOfN(piece, 0, maxPieces).Draw(t, "ps")
		mode := rapid.IntRange(0, 3).Draw(t, "sepmode")
		var sb strings.Builder
		for i, p := range ps {
			if i > 0 {
				switch mode {
				case 0:
				case 1:
					sb.WriteString(" ")
				default:
					sb.WriteString(rapid.SampledFrom(seps).Draw(t, "sep"))
				}
			}
			sb.WriteString(p)
		}
		s := sb.String()
		if len(s) > 0 && rapid.IntRange(0, 9).Draw(t, "dup") == 0 {
			k := rapid.IntRange(0, len(s)-1).Draw(t, "k")
			s = s + s[k:]
		}
		return s
	})
}

var sqlSeps = []string{"", "", " ", " ", "\t", "\n", "/**/", "\x00", "\xa0", "(", ")", ","}
var htmlSeps = []string{"", "", "", " ", "=", "/", "\x00", "\n"}

// SQLInput is the FragSQL generator.
func SQLInput() *rapid.Generator[string] { return fromFrags(FragSQL, sqlSeps, 14) }

// HTMLInput is the FragHTML generator.
func HTMLInput() *rapid.Generator[string] { return fromFrags(FragHTML, htmlSeps, 14) }

// Bytes draws an arbitrary byte string of bounded length.
func Bytes(max int) *rapid.Generator[string] {
	return rapid.Custom(func(t *rapid.T) string { return string(rapid.SliceOfN(rapid.Byte(), 0, max).Draw(t, "bytes")) })
}

// Mutate applies 1-4 random edits (insert fragment/byte, delete, duplicate a
// slice, splice, flip case, truncate, copy a slice elsewhere) to s.
func Mutate(t *rapid.T, s string, frags []string) string {
	n := rapid.IntRange(1, 4).Draw(t, "nmut")
	for i := 0; i < n; i++ {
		pos := 0
		if len(s) > 0 {
			pos = rapid.IntRange(0, len(s)).Draw(t, "pos")
		}
		switch rapid.IntRange(0, 7).Draw(t, "op") {
		case 0:
			s = s[:pos] + rapid.SampledFrom(frags).Draw(t, "frag") + s[pos:]
		case 1:
			s = s[:pos] + string([]byte{rapid.Byte().Draw(t, "b")}) + s[pos:]
		case 2:
			if pos < len(s) {
				end := pos + rapid.IntRange(1, min(8, len(s)-pos)).Draw(t, "dl")
				s = s[:pos] + s[end:]
			}
		case 3:
			if pos < len(s) {
				end := pos + rapid.IntRange(1, min(16, len(s)-pos)).Draw(t, "dupl")
				s = s[:end] + s[pos:end] + s[end:]
			}
		case 4:
			s = s[:pos]
		case 5:
			if pos < len(s) {
				b := []byte(s)
				if (b[pos]|0x20) >= 'a' && (b[pos]|0x20) <= 'z' {
					b[pos] ^= 0x20
				}
				s = string(b)
			}
		case 6:
			if pos < len(s) {
				s = s + s[pos:]
			}
		case 7:
			// copy a slice to another place (mirrored delimiters, repeated tags)
			if pos < len(s) {
				end := pos + rapid.IntRange(1, min(10, len(s)-pos)).Draw(t, "cpl")
				to := rapid.IntRange(0, len(s)).Draw(t, "to")
				s = s[:to] + s[pos:end] + s[to:]
			}
		}
	}
	return s
}

func min(a, b int) int {
	if a < b {
		return a
	}
	return b
}

// ---------------------------------------------------------------------------
// case helpers (byte-wise: strings.ToUpper would rewrite a lone 0xA0 to U+FFFD)

func IsLetter(b byte) bool { return (b|0x20) >= 'a' && (b|0x20) <= 'z' }

func LowerASCII(s string) string {
	b := []byte(s)
	for i := range b {
		if b[i] >= 'A' && b[i] <= 'Z' {
			b[i] += 32
		}
	}
	return string(b)
}

func UpperASCII(s string) string {
	b := []byte(s)
	for i := range b {
		if b[i] >= 'a' && b[i] <= 'z' {
			b[i] -= 32
		}
	}
	return string(b)
}

// HasUnicodeFold reports whether s contains one of the four code points that
// Go's strings.ToUpper/ToLower fold into ASCII (section 3c of DESIGN.md).
func HasUnicodeFold(s string) bool {
	return strings.Contains(s, "\xc5\xbf") || strings.Contains(s, "\xc4\xb1") || strings.Contains(s, "\xe2\x84\xaa") || strings.Contains(s, "\xc4\xb0")
}

// ---------------------------------------------------------------------------
// corpus

type Corpus struct {
	SQL  []string // --INPUT-- of tests/test-{tokens,folding,sqli}*.txt
	HTML []string // --INPUT-- of tests/test-html5-*.txt and literals of xss_test.go
}

func readInput(p string) string {
	f, err := os.Open(p)
	if err != nil {
		return ""
	}
	defer f.Close()
	sc := bufio.NewScanner(f)
	sc.Buffer(make([]byte, 1<<20), 1<<20)
	st := ""
	var in []string
	for sc.Scan() {
		l := sc.Text()
		tl := strings.TrimSpace(l)
		if tl == "--TEST--" || tl == "--INPUT--" || tl == "--EXPECTED--" {
			st = tl
			continue
		}
		if st == "--INPUT--" {
			in = append(in, l)
		}
	}
	return strings.TrimSpace(strings.Join(in, "\n"))
}

var strLit = regexp.MustCompile(`"(?:[^"\\]|\\.)*"`)

// LoadCorpus reads the repository's fixtures; a missing directory yields a
// small built-in corpus so that generators never run dry.
func LoadCorpus(repo string) Corpus {
	var c Corpus
	files, _ := filepath.Glob(filepath.Join(repo, "tests", "*.txt"))
	sort.Strings(files)
	for _, p := range files {
		in := readInput(p)
		if in == "" {
			continue
		}
		if strings.Contains(filepath.Base(p), "html5") {
			c.HTML = append(c.HTML, in)
		} else {
			c.SQL = append(c.SQL, in)
		}
	}
	if b, err := os.ReadFile(filepath.Join(repo, "xss_test.go")); err == nil {
		for _, m := range strLit.FindAllString(string(b), -1) {
			if s, err := strconv.Unquote(m); err == nil && len(s) > 3 && strings.ContainsAny(s, "<=") {
				c.HTML = append(c.HTML, s)
			}
		}
	}
	if len(c.SQL) < 10 {
		c.SQL = append(c.SQL, "1 union select 1", "' or 1=1 --", "1; drop table users", "foo 'bar'", "1 /* x */ union", "sleep(5)#", "\" or \"\"=\"", "1' and sleep(3) and '1'='1", "@@version", "admin'--")
	}
	if len(c.HTML) < 10 {
		c.HTML = append(c.HTML, "<script>alert(1)</script>", "<a href=javascript:alert(1)>", "<img src=x onerror=alert(1)>", "<!--x-->", "<![CDATA[x]]>", "<%x%>", "<!doctype html>", "<a b='c'>", "<?xml x>", "<p style=x>")
	}
	return c
}
