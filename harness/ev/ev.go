// Package ev collects what a check actually explored and writes
// /verif/evidence/<ID>.json, replay files and the VIOLATION / KNOWN-FINDING
// lines. It knows nothing about the library under test.
package ev

import (
	"encoding/hex"
	"encoding/json"
	"fmt"
	"hash/fnv"
	"os"
	"path/filepath"
	"sort"
	"strconv"
	"sync"
	"sync/atomic"
	"time"
)

// Case is one generated case, the unit that is judged, counted, sampled and
// replayed. Kind selects the oracle variant inside a property; N is a mode,
// context, count or size; In/In2 are byte strings.
type Case struct {
	Kind string
	N    int
	In   string
	In2  string
}

type caseJSON struct {
	Property string `json:"property,omitempty"`
	Kind     string `json:"kind"`
	N        int    `json:"n"`
	InHex    string `json:"input_hex"`
	In2Hex   string `json:"input2_hex,omitempty"`
	InQ      string `json:"input_quoted"`
	In2Q     string `json:"input2_quoted,omitempty"`
	Note     string `json:"note,omitempty"`
}

func clipQ(s string) string {
	if len(s) > 200 {
		return strconv.Quote(s[:200]) + fmt.Sprintf("...(+%d bytes)", len(s)-200)
	}
	return strconv.Quote(s)
}

func (c Case) toJSON(prop, note string) caseJSON {
	j := caseJSON{Property: prop, Kind: c.Kind, N: c.N, InHex: hex.EncodeToString([]byte(c.In)), InQ: clipQ(c.In), Note: note}
	if c.In2 != "" {
		j.In2Hex = hex.EncodeToString([]byte(c.In2))
		j.In2Q = clipQ(c.In2)
	}
	return j
}

// Sample renders a case for the samples list of the evidence file.
func (c Case) Sample() interface{} {
	m := map[string]interface{}{"kind": c.Kind, "input": clipQ(c.In)}
	if c.N != 0 {
		m["n"] = c.N
	}
	if c.In2 != "" {
		m["input2"] = clipQ(c.In2)
	}
	return m
}

func (c Case) Hash() uint64 {
	h := fnv.New64a()
	h.Write([]byte(c.Kind))
	h.Write([]byte{0, byte(c.N), byte(c.N >> 8), byte(c.N >> 16), 0})
	h.Write([]byte(c.In))
	h.Write([]byte{0xff, 0})
	h.Write([]byte(c.In2))
	return h.Sum64()
}

// LoadCase reads a replay file.
func LoadCase(path string) (prop string, c Case, err error) {
	b, err := os.ReadFile(path)
	if err != nil {
		return "", c, err
	}
	var j caseJSON
	if err = json.Unmarshal(b, &j); err != nil {
		return "", c, err
	}
	in, err := hex.DecodeString(j.InHex)
	if err != nil {
		return "", c, err
	}
	in2, err := hex.DecodeString(j.In2Hex)
	if err != nil {
		return "", c, err
	}
	return j.Property, Case{Kind: j.Kind, N: j.N, In: string(in), In2: string(in2)}, nil
}

type Violation struct {
	C   Case
	Msg string
}

type Part struct {
	Name        string  `json:"name"`
	Strategy    string  `json:"strategy"`
	Exhaustive  bool    `json:"exhaustive"`
	Space       string  `json:"space,omitempty"`
	Evaluations int64   `json:"evaluations"`
	Nontrivial  int64   `json:"nontrivial"`
	WallS       float64 `json:"wall_s"`
	random      bool
	started     time.Time
}

const maxHashes = 12_000_000

// Recorder accumulates the evidence of one check run.
type Recorder struct {
	ID, Tier string
	Seed     int64
	Dir      string // /verif
	Rule     string
	Assume   []string
	Extra    map[string]interface{}

	mu        sync.Mutex
	parts     []*Part
	classes   map[string]int64
	excluded  map[string]int64
	hashes    map[uint64]struct{}
	hashesCap bool
	samples   []interface{}
	viol      []Violation
	stop      int32
	start     time.Time
	required  []string
}

func New(id, tier string, seed int64, dir string) *Recorder {
	return &Recorder{ID: id, Tier: tier, Seed: seed, Dir: dir, classes: map[string]int64{}, excluded: map[string]int64{},
		hashes: map[uint64]struct{}{}, start: time.Now(), Extra: map[string]interface{}{}}
}

// Stopped is true once a violation has been recorded; workers poll it.
func (r *Recorder) Stopped() bool { return atomic.LoadInt32(&r.stop) != 0 }

// Require names classes whose count must be > 0 at the end (vacuity control).
func (r *Recorder) Require(classes ...string) { r.required = append(r.required, classes...) }

// NewPart declares one exploration strategy. random=false means the part
// enumerates a duplicate-free space; random=true means cases are deduplicated
// by hash for the distinct count.
func (r *Recorder) NewPart(name, strategy string, random bool, exhaustive bool, space string) *Part {
	p := &Part{Name: name, Strategy: strategy, Exhaustive: exhaustive, Space: space, random: random, started: time.Now()}
	r.mu.Lock()
	if n := len(r.parts); n > 0 {
		r.parts[n-1].WallS = time.Since(r.parts[n-1].started).Seconds()
	}
	r.parts = append(r.parts, p)
	r.mu.Unlock()
	return p
}

// Local is a per-goroutine accumulator; Flush merges it.
type Local struct {
	r       *Recorder
	p       *Part
	evals   int64
	nontriv int64
	classes map[string]int64
	hashes  []uint64
	samples []interface{}
	nextS   int64
}

func (r *Recorder) Local(p *Part) *Local {
	return &Local{r: r, p: p, classes: map[string]int64{}, nextS: 1}
}

// Count records one judged case.
func (l *Local) Count(c Case, nontrivial bool, class string) {
	l.evals++
	if class != "" {
		l.classes[class]++
	}
	if !nontrivial {
		return
	}
	if l.p.random {
		l.hashes = append(l.hashes, c.Hash())
		if len(l.hashes) >= 1<<16 {
			l.flushHashes()
		}
	}
	l.nontriv++
	if l.nontriv == l.nextS && len(l.samples) < 6 {
		l.samples = append(l.samples, c.Sample())
		l.nextS = l.nextS*7 + 3
	}
}

// Class adds to a histogram bucket without counting a case.
func (l *Local) Class(class string, n int64) { l.classes[class] += n }

func (l *Local) flushHashes() {
	l.r.mu.Lock()
	for _, h := range l.hashes {
		if len(l.r.hashes) >= maxHashes {
			l.r.hashesCap = true
			break
		}
		l.r.hashes[h] = struct{}{}
	}
	l.r.mu.Unlock()
	l.hashes = l.hashes[:0]
}

func (l *Local) Flush() {
	l.flushHashes()
	l.r.mu.Lock()
	l.p.Evaluations += l.evals
	if !l.p.random {
		l.p.Nontrivial += l.nontriv
	}
	for k, v := range l.classes {
		l.r.classes[k] += v
	}
	if len(l.r.samples) < 40 {
		for _, s := range l.samples {
			if len(l.r.samples) < 40 {
				l.r.samples = append(l.r.samples, map[string]interface{}{"part": l.p.Name, "case": s})
			}
		}
	}
	l.r.mu.Unlock()
	l.evals, l.nontriv = 0, 0
	l.classes = map[string]int64{}
	l.samples = nil
}

func (r *Recorder) Exclude(reason string, n int64) {
	r.mu.Lock()
	r.excluded[reason] += n
	r.mu.Unlock()
}

func (r *Recorder) AddClass(class string, n int64) {
	r.mu.Lock()
	r.classes[class] += n
	r.mu.Unlock()
}

func (r *Recorder) ClassCount(class string) int64 {
	r.mu.Lock()
	defer r.mu.Unlock()
	return r.classes[class]
}

// Violate records a failed oracle. The first few are kept (shortest first).
func (r *Recorder) Violate(c Case, msg string) {
	atomic.StoreInt32(&r.stop, 1)
	r.mu.Lock()
	if len(r.viol) < 64 {
		r.viol = append(r.viol, Violation{c, msg})
	}
	r.mu.Unlock()
}

func (r *Recorder) Violations() []Violation {
	r.mu.Lock()
	defer r.mu.Unlock()
	v := append([]Violation(nil), r.viol...)
	sort.SliceStable(v, func(i, j int) bool { return len(v[i].C.In)+len(v[i].C.In2) < len(v[j].C.In)+len(v[j].C.In2) })
	return v
}

// ReplaceViolations lets the caller substitute minimised violations.
func (r *Recorder) ReplaceViolations(v []Violation) {
	r.mu.Lock()
	r.viol = v
	r.mu.Unlock()
}

// WriteReplay stores a case under /verif/replays and returns the path.
func (r *Recorder) WriteReplay(c Case, note string) string {
	dir := filepath.Join(r.Dir, "replays")
	os.MkdirAll(dir, 0o755)
	p := filepath.Join(dir, fmt.Sprintf("%s-%s-%016x.json", r.ID, c.Kind, c.Hash()))
	b, _ := json.MarshalIndent(c.toJSON(r.ID, note), "", " ")
	os.WriteFile(p, append(b, '\n'), 0o644)
	return p
}

// Known findings ------------------------------------------------------------

type Finding struct {
	Status   string `json:"status"` // "open" or "fixed"
	Property string `json:"property"`
	Commit   string `json:"commit,omitempty"`
	What     string `json:"what"`
	Kind     string `json:"kind,omitempty"`
	N        int    `json:"n,omitempty"`
	InHex    string `json:"input_hex,omitempty"`
	In2Hex   string `json:"input2_hex,omitempty"`
}

type findingsFile struct {
	Findings []Finding `json:"findings"`
}

// OpenFindings returns the open entries for this property (never written at run time).
func (r *Recorder) OpenFindings() []Finding {
	b, err := os.ReadFile(filepath.Join(r.Dir, "known_findings.json"))
	if err != nil {
		return nil
	}
	var f findingsFile
	if json.Unmarshal(b, &f) != nil {
		return nil
	}
	var out []Finding
	for _, x := range f.Findings {
		if x.Status == "open" && x.Property == r.ID {
			out = append(out, x)
		}
	}
	return out
}

func (f Finding) Case() Case {
	in, _ := hex.DecodeString(f.InHex)
	in2, _ := hex.DecodeString(f.In2Hex)
	return Case{Kind: f.Kind, N: f.N, In: string(in), In2: string(in2)}
}

func (f Finding) Matches(c Case) bool {
	k := f.Case()
	return k.Kind == c.Kind && k.N == c.N && k.In == c.In && k.In2 == c.In2
}

// Finish writes the evidence file, prints VIOLATION / KNOWN-FINDING lines and
// returns the process exit status: 0 held, 1 violation, 2 vacuous/inconclusive.
func (r *Recorder) Finish() int {
	open := r.OpenFindings()
	viol := r.Violations()
	var real []Violation
	known := map[string]bool{}
	for _, v := range viol {
		matched := false
		for _, f := range open {
			if f.Matches(v.C) {
				matched = true
				if !known[f.What] {
					known[f.What] = true
					fmt.Printf("KNOWN-FINDING: property=%s %s\n", r.ID, f.What)
				}
			}
		}
		if !matched {
			real = append(real, v)
		}
	}

	if n := len(r.parts); n > 0 && r.parts[n-1].WallS == 0 {
		r.parts[n-1].WallS = time.Since(r.parts[n-1].started).Seconds()
	}
	var evals, nontriv int64
	allExh := len(r.parts) > 0
	for _, p := range r.parts {
		evals += p.Evaluations
		if !p.random {
			nontriv += p.Nontrivial
		}
		if !p.Exhaustive {
			allExh = false
		}
	}
	r.mu.Lock()
	randomDistinct := int64(len(r.hashes))
	for _, p := range r.parts {
		if p.random {
			p.Nontrivial = -1
		}
	}
	r.mu.Unlock()
	nontriv += randomDistinct

	missing := []string{}
	for _, c := range r.required {
		if r.classes[c] == 0 {
			missing = append(missing, c)
		}
	}

	cov := map[string]interface{}{
		"evaluations":         evals,
		"distinct_nontrivial": nontriv,
		"rule":                r.Rule,
		"samples":             r.samples,
		"exhaustive":          allExh,
		"parts":               r.parts,
		"classes":             r.classes,
		"excluded":            r.excluded,
		"random_part_distinct_nontrivial_by_fnv64": randomDistinct,
		"distinct_count_capped":                    r.hashesCap,
		"required_classes":                         r.required,
		"missing_required_classes":                 missing,
	}
	for k, v := range r.Extra {
		cov[k] = v
	}
	if len(r.samples) == 0 {
		cov["samples"] = []interface{}{"(no non-trivial case was generated)"}
	}
	var vlist []interface{}
	for i, v := range real {
		if i >= 5 {
			break
		}
		vlist = append(vlist, map[string]interface{}{"case": v.C.Sample(), "message": v.Msg})
	}
	if len(vlist) > 0 {
		cov["violations_found"] = vlist
	}
	doc := map[string]interface{}{
		"property_id": r.ID,
		"tier":        r.Tier,
		"seed":        r.Seed,
		"level":       "exploration",
		"coverage":    cov,
		"assumptions": r.Assume,
		"wall_s":      time.Since(r.start).Seconds(),
		"violations":  len(real),
	}
	os.MkdirAll(filepath.Join(r.Dir, "evidence"), 0o755)
	b, _ := json.MarshalIndent(doc, "", " ")
	tmp := filepath.Join(r.Dir, "evidence", "."+r.ID+".json.tmp")
	if err := os.WriteFile(tmp, append(b, '\n'), 0o644); err == nil {
		os.Rename(tmp, filepath.Join(r.Dir, "evidence", r.ID+".json"))
	}

	if len(real) > 0 {
		seen := map[string]bool{}
		for i, v := range real {
			if i >= 3 {
				break
			}
			key := v.C.Kind + "|" + v.Msg
			if len(key) > 60 {
				key = key[:60]
			}
			if seen[key] {
				continue
			}
			seen[key] = true
			p := r.WriteReplay(v.C, v.Msg)
			fmt.Printf("FAILED-CASE property=%s kind=%s n=%d input=%s input2=%s : %s\n", r.ID, v.C.Kind, v.C.N, clipQ(v.C.In), clipQ(v.C.In2), v.Msg)
			fmt.Printf("VIOLATION property=%s replay=%s\n", r.ID, p)
		}
		return 1
	}
	if len(missing) > 0 {
		fmt.Printf("INCONCLUSIVE property=%s required classes never generated: %v\n", r.ID, missing)
		return 2
	}
	fmt.Printf("OK property=%s tier=%s seed=%d evaluations=%d distinct_nontrivial=%d wall=%.1fs\n", r.ID, r.Tier, r.Seed, evals, nontriv, time.Since(r.start).Seconds())
	return 0
}
