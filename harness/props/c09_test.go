package props

import (
	"fmt"
	"runtime"
	"strings"
	"sync"
	"syscall"
	"testing"
	"time"
	"unsafe"

	lib "github.com/corazawaf/libinjection-go"
	"pgregory.net/rapid"
	"verifh/ev"
)

// C09 - both detectors run in time linear in the input length.

func init() { registry["C09"] = c09Oracle }

// threadCPU reads CLOCK_THREAD_CPUTIME_ID: CPU time consumed by the calling OS
// thread, so load from other processes and goroutines does not enter.
func threadCPU() time.Duration {
	var ts syscall.Timespec
	syscall.Syscall(syscall.SYS_CLOCK_GETTIME, 3, uintptr(unsafe.Pointer(&ts)), 0)
	return time.Duration(ts.Sec)*time.Second + time.Duration(ts.Nsec)
}

var sinkB bool

// observed extremes, reported in the evidence file (margin to the thresholds)
var (
	c09Mu          sync.Mutex
	c09MaxRatio    float64
	c09MaxRatioFam string
	c09MaxPB       float64
	c09MaxPBFam    string
)

func c09Observe(c ev.Case, det int, ratio, pb float64, t2 time.Duration) {
	c09Mu.Lock()
	defer c09Mu.Unlock()
	name := fmt.Sprintf("%s %s prefix=%q unit=%q", detNames[det], c.Kind, c.In2, c.In)
	if t2 >= 2*time.Millisecond && ratio > c09MaxRatio {
		c09MaxRatio, c09MaxRatioFam = ratio, name
	}
	if pb > c09MaxPB {
		c09MaxPB, c09MaxPBFam = pb, name
	}
}

func costOf(det int, s string, reps int) time.Duration {
	best := time.Duration(1 << 62)
	for i := 0; i < reps; i++ {
		t0 := threadCPU()
		if det == 0 {
			b, _ := lib.IsSQLi(s)
			sinkB = sinkB != b
		} else {
			sinkB = sinkB != lib.IsXSS(s)
		}
		if d := threadCPU() - t0; d < best {
			best = d
		}
		if best > 8*time.Millisecond && i >= reps/3 {
			break // long measurements are not dominated by noise; do not repeat them
		}
	}
	return best
}

const famSep = "\xfe\xfe"

func buildFamily(c ev.Case, n int, extra int) string {
	parts := strings.SplitN(c.In2, famSep, 2)
	pre, suf := parts[0], ""
	if len(parts) == 2 {
		suf = parts[1]
	}
	unit := c.In
	if unit == "" {
		unit = "a"
	}
	k := (n-len(pre)-len(suf))/len(unit) + extra
	if k < 1 {
		k = 1
	}
	var sb strings.Builder
	sb.Grow(n + len(unit))
	sb.WriteString(pre)
	if c.Kind == "counter" {
		// distinct words / dollar tags: unit with a running counter
		for i := 0; sb.Len() < n-len(suf) || i < extra; i++ {
			if strings.IndexByte(unit, '#') >= 0 {
				// template: every '#' is replaced by the i-th distinct word
				sb.WriteString(strings.ReplaceAll(unit, "#", counterWord(i)))
				continue
			}
			sb.WriteString(unit)
			sb.WriteString(counterWord(i))
			sb.WriteString(" ")
		}
	} else {
		for i := 0; i < k; i++ {
			sb.WriteString(unit)
		}
	}
	sb.WriteString(suf)
	return sb.String()
}

func counterWord(i int) string {
	b := []byte{}
	for {
		b = append(b, byte('a'+i%26))
		i /= 26
		if i == 0 {
			break
		}
	}
	return string(b)
}

var detNames = []string{"IsSQLi", "IsXSS"}

const (
	c09RatioFactor = 4.0  // cost ratio must stay below 4x the size ratio (8 -> 32; quadratic gives 64; cache-tier effects reach ~18)
	c09StepFactor  = 3.0  // and cost(256k)/cost(128k) below 3 (linear 2, quadratic 4)
	c09PerByte     = 5000 // ns per byte ceiling (measured worst linear family: ~850 ns/B)
)

func c09Oracle(c ev.Case) Res {
	runtime.LockOSThread()
	defer runtime.UnlockOSThread()
	n1, n2 := 32<<10, 256<<10
	if c.N > 0 {
		n1, n2 = c.N, c.N*8
	}
	// the cost at size n is the larger of the costs with k and k+1 repetitions:
	// the number of parsing passes (1..5) can depend on the parity of k
	s1, s1b, s2, s2b := buildFamily(c, n1, 0), buildFamily(c, n1, 1), buildFamily(c, n2, 0), buildFamily(c, n2, 1)
	cost2 := func(det int, a, b string, reps int) time.Duration {
		x, y := costOf(det, a, reps), costOf(det, b, reps)
		if y > x {
			return y
		}
		return x
	}
	res := Res{}
	for det := 0; det < 2; det++ {
		// stage 1: two sizes, min of 3
		measure := func(reps int) (t1, t2 time.Duration, msg string) {
			t1 = cost2(det, s1, s1b, reps)
			if pb := float64(t1.Nanoseconds()) / float64(len(s1)); pb > c09PerByte {
				// already beyond the per-byte ceiling at the small size: do not pay for the large one
				return t1, t1 * 8, fmt.Sprintf("%s costs %.0f ns/byte at %d B (%v)", detNames[det], pb, len(s1), t1)
			}
			t2 = cost2(det, s2, s2b, reps)
			perByte := float64(t2.Nanoseconds()) / float64(len(s2))
			ratio := 0.0
			if t1 > 0 {
				ratio = float64(t2) / float64(t1)
			}
			scale := float64(len(s2)) / float64(len(s1))
			c09Observe(c, det, ratio*8/scale, perByte, t2)
			if t2 >= 2*time.Millisecond && ratio > c09RatioFactor*scale {
				return t1, t2, fmt.Sprintf("%s super-linear: %d B -> %v, %d B -> %v (ratio %.1f for a size ratio of %.1f)", detNames[det], len(s1), t1, len(s2), t2, ratio, scale)
			}
			if perByte > c09PerByte {
				return t1, t2, fmt.Sprintf("%s costs %.0f ns/byte at %d B (%v)", detNames[det], perByte, len(s2), t2)
			}
			return t1, t2, ""
		}
		_, t2, msg := measure(3)
		if msg != "" {
			// stage 2: confirm with doubled repetitions, and require the last doubling
			// (n2/2 -> n2) to be super-linear as well, so that one noisy small
			// measurement cannot produce a violation
			_, t2b, msg2 := measure(6)
			if msg2 != "" {
				sm := buildFamily(c, n2/2, 0)
				tm := cost2(det, sm, buildFamily(c, n2/2, 1), 6)
				step := float64(t2b) / float64(tm)
				pb := float64(t2b.Nanoseconds()) / float64(len(s2))
				if step > c09StepFactor || pb > c09PerByte {
					return Res{Err: fmt.Sprintf("%s; last doubling %d B -> %v costs x%.2f", msg2, len(sm), tm, step), NT: true, Class: "slow"}
				}
			}
		}
		if t2 >= time.Millisecond {
			res.NT = true
			res.Class = "scanned_" + detNames[det]
		}
	}
	return res
}

var c09Atoms = []string{"\\'", "''", "'", "\"", "\"\"", "\\\"", "`", "``", "\\\\'", "\\", "$a$", "$$", "$", "$a", "/*", "/**/", "*/", "/*!", "@", "@@", "[", "]", "--", "--\n", "#\n", "#", "1e", "1e+", "0x", "q'(", ")'", "x'", "n'", "u&'", "b'0",
	"<", "-", "<!---", "--!", "%", "<%%", "%>", "]", "]]", "]]>", "&#", "&#x", "&#1;", "/", "a=b ", "<a ", "<a/", "<a", ">", "=", "='", "=\"", "((1", "1,", "{a ", "(", ")", ";", ",", "a.", ".", "1 ", "a ", "or ", "select ", "union ", "- ", "+", "!", "::", "\x00", "-\x00", " ", "\n", "\xa0", "\xe9", "<!", "<?", "<!--", "<![CDATA[", "</a", "</", "on", "onclick=", "href=", "href=&#", "style=x "}

// c09PairAtoms: token-forming atoms of both languages; every ordered pair is a family
// (a scanner that looks far ahead but consumes little only shows when two token kinds alternate)
var c09PairAtoms = []string{"`a`", "`", "'a'", "'", "\"a\"", "MOD", "or", "select", "union", "a", "1", ".5", "1.", ".", "a.", "0x1", "1e", "$a$", "$a", "$1", "@a", "@", "[a]", "[", "q'(", "n'a'", "x'1'", "u&'a'", "--", "#", "/*", "*/", "/*a*/", "\\", "(", ")", ",", ";", "=", "-", " ", "\n",
	"<", "<a", "<a ", ">", "/", "b=c", "b='c'", "=", "<!--", "-->", "<!", "<?", "<%", "%>", "]]>", "&#", "&#1;", "-", "\x00", "href=", "onx="}

// complete constructs with a body of >= 4 bytes (a per-construct cost proportional to the rest of the input only shows then)
var c09Constructs = []string{"<!--abcd-->", "<?abcdef>", "<%abcd%>", "</ abcd>", "<!abcd>", "<![CDATA[abcd]]>", "<a bcde=fghi>", "<abcd>", "</abcd>", "<a href=http://abcd>", "<a href='abcd'>", "<a onx=abcd>",
	"'abcd'", "\"abcd\"", "`abcd`", "/*abcd*/", "--abcd\n", "#abcd\n", "[abcd]", "$a$bcde$a$", "q'(abcd)'", "@abcd", "0x1234", "12345", "abcde", "abcd.efgh", "&#1234;", "&#x1234;", "'abcd',", "\"abcd\"+", "`abcd`.", "e'abcd',", "@'abcd',", "(abcd)", "{abcd}", "abcd=efgh", "abcd efgh,"}

var c09Prefixes = []string{"", "'", "\"", "`", "/*", "q'(", "q'\xe9", "$a$", "$$", "--", "#", "@", "@`", "[", "1 ", "x' or ", "<a b='", "<a b=\"", "<a b=`", "<a b=", "<a ", "<!--", "<![CDATA[", "<%", "<!", "<?", "<!doctype ", "<", "</", "<a href=", "<a href='"}
var c09Suffixes = []string{"", "'", "\"", "*/", ")'", "$a$", "-->", "]]>", "%>", ">", " union select 1 --"}

func famCase(kind, pre, unit, suf string) ev.Case {
	return ev.Case{Kind: kind, In: unit, In2: pre + famSep + suf}
}

func TestC09(t *testing.T) {
	c := NewCheck(t, "C09", "a case is an input family prefix+unit^k+suffix (or prefix + counter-words) instantiated at 32 kB and 256 kB (thorough: also 1 MB and 8 MB); cost(n) = max over k and k+1 repetitions (pass count can depend on parity) of the minimum thread-CPU time over 3 runs, per detector; violation iff cost(256 kB) >= 2 ms and cost ratio > 32 (4x the size ratio; linear 8, quadratic 64, cache-tier effects measured up to 18), or > 5 us/byte, confirmed by a re-measurement with 6 repetitions and by the last doubling 128 kB -> 256 kB costing more than x3 (linear 2, quadratic 4); a family is non-trivial when a detector spends >= 1 ms on the 256 kB member; families are distinct by (kind,prefix,unit,suffix)")
	c.rec.Assume = []string{"CLOCK_THREAD_CPUTIME_ID is available (Linux)", "asymptotics are inferred from two to four sizes", "thresholds: linear gives ratio 8, quadratic 64; the decision threshold is 24"}
	c.hangSec = 600
	defer c.Finish()

	var fams []ev.Case
	seen := map[string]bool{}
	add := func(cs ev.Case) {
		k := cs.Kind + "|" + cs.In + "|" + cs.In2
		if !seen[k] {
			seen[k] = true
			fams = append(fams, cs)
		}
	}
	for _, u := range c09Atoms {
		for _, p := range c09Prefixes {
			add(famCase("repeat", p, u, ""))
		}
	}
	for _, u := range []string{"''", "\\'", "'", "a", "-", "%", "]", "$a$", "/*"} {
		for _, p := range []string{"", "'", "\"", "q'(", "$a$", "/*", "x' or ", "<a b='", "<!--", "<![CDATA[", "<%", "<a "} {
			for _, s := range c09Suffixes {
				add(famCase("repeat", p, u, s))
			}
		}
	}
	// distinct words kept folding by glue tokens (a cost per distinct word only shows when the whole input is tokenized)
	for _, u := range []string{"c#,", "'#',", "@#,", "c#+", "c#=c# or ", "#.", "`#`,", "c#(", "$#$x$#$,", "[#],", "1 #,", "# = ", "<#>", "<a# >", "<a #=x>", "a#=x ", "<a #='x' ", "</#>", "&#; ", "<!--#-->", "#=\"#\" "} {
		add(famCase("counter", "", u, ""))
		add(famCase("counter", "1 ", u, ""))
		add(famCase("counter", "<a ", u, ""))
	}
	for _, u := range []string{"", "$", "@", "'", "<", "<a ", "x=", "$a", "/*"} {
		add(famCase("counter", "", u, ""))
		add(famCase("counter", "'", u, ""))
		add(famCase("counter", "<a ", u, ""))
	}
	for _, u := range c09Constructs {
		for _, p := range []string{"", "'", "\"", "1 ", "<a ", "<a b='", "<!--", "x' or "} {
			add(famCase("repeat", p, u, ""))
		}
		for _, v := range c09Constructs {
			if thorough() {
				add(famCase("repeat", "", u+v, ""))
			}
		}
	}
	// rejected candidates: every construct opener followed by a byte that (for some openers) makes the scanner give
	// the construct up, then glue that keeps the token stream going. A scanner that searches for the terminator
	// before it tests whether the construct starts at all pays for the rest of the input at every candidate.
	for oi, o := range append(append([]string{}, sqlHostile...), htmlHostile...) {
		for fi, f := range []string{" ", ",", "a", "'", "\x00", "("} {
			for gi, g := range []string{"", ",", "',", ",',", " "} {
				if thorough() || (oi+fi+gi)%2 == 0 { // quick: a fixed half
					add(famCase("repeat", "", o+f+g, ""))
				}
			}
		}
	}
	nPairAtoms := len(c09PairAtoms)
	for i, a := range c09PairAtoms {
		for j, b := range c09PairAtoms {
			if thorough() || (i*31+j*17)%2 == 0 { // quick: a fixed half of the ordered pairs
				add(famCase("repeat", "", a+b, ""))
			}
		}
	}
	_ = nPairAtoms
	p := c.rec.NewPart("named_families", fmt.Sprintf("%d atoms x %d prefixes, 9 quote/terminator units x prefixes x %d suffixes, counter families, ordered pairs over %d token-forming atoms (quick: a fixed half)", len(c09Atoms), len(c09Prefixes), len(c09Suffixes), len(c09PairAtoms)), false, true, "")
	c.ParRange(p, int64(len(fams)), func(w *Worker, i int64) { w.JudgeSlow(fams[i]) })

	if thorough() {
		// larger sizes for every family that is actually scanned: 1 MB -> 8 MB
		p = c.rec.NewPart("named_families_large", "the same families at 1 MB and 8 MB (every 4th family)", false, true, "")
		c.ParRange(p, int64(len(fams)/4), func(w *Worker, i int64) {
			cs := fams[i*4]
			cs.N = 1 << 20
			w.JudgeSlow(cs)
		})
	}

	p = c.rec.NewPart("rapid_compositions", "rapid: prefix x unit of 1-3 atoms x suffix", true, false, "")
	c.Rapid(p, 8, pick(100, 1500), func(rt *rapid.T, sh int) ev.Case {
		n := rapid.IntRange(1, 3).Draw(rt, "n")
		u := ""
		for i := 0; i < n; i++ {
			u += rapid.SampledFrom(c09Atoms).Draw(rt, "atom")
		}
		return famCase("repeat", rapid.SampledFrom(c09Prefixes).Draw(rt, "pre"), u, rapid.SampledFrom(c09Suffixes).Draw(rt, "suf"))
	})
	c.rec.Require("scanned_IsSQLi", "scanned_IsXSS")
	c.rec.Extra["max_cost_ratio_observed_(threshold_32)"] = map[string]interface{}{"ratio": c09MaxRatio, "family": c09MaxRatioFam}
	c.rec.Extra["max_ns_per_byte_observed_(threshold_5000)"] = map[string]interface{}{"ns_per_byte": c09MaxPB, "family": c09MaxPBFam}
}
