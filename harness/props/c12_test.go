package props

import (
	"fmt"
	"strings"
	"testing"

	lib "github.com/corazawaf/libinjection-go"
	"pgregory.net/rapid"
	"verifh/ev"
	"verifh/gen"
)

// C12 - IsSQLi equals the disjunction of its documented parsing contexts.

func init() { registry["C12"] = c12Oracle }

// cascade computes, from per-context results on fresh state, what IsSQLi must return.
func cascade(s string) (bool, string, int, string) {
	if len(s) == 0 {
		return false, "", -1, ""
	}
	gates := ""
	_, fp, _, v, st := lib.VFingerprint(s, fNone|fANSI)
	if v {
		return true, fp, 0, gates
	}
	if st.DDX != 0 || st.Hash != 0 {
		gates += "m"
		if _, fp, _, v, _ = lib.VFingerprint(s, fNone|fMySQL); v {
			return true, fp, 1, gates
		}
	}
	if strings.IndexByte(s, '\'') >= 0 {
		gates += "s"
		_, fp, _, v, st = lib.VFingerprint(s, fSingle|fANSI)
		if v {
			return true, fp, 2, gates
		}
		if st.DDX != 0 || st.Hash != 0 {
			gates += "M"
			if _, fp, _, v, _ = lib.VFingerprint(s, fSingle|fMySQL); v {
				return true, fp, 3, gates
			}
		}
	}
	if strings.IndexByte(s, '"') >= 0 {
		gates += "d"
		if _, fp, _, v, _ = lib.VFingerprint(s, fDouble|fMySQL); v {
			return true, fp, 4, gates
		}
	}
	return false, "", -1, gates
}

func c12Oracle(c ev.Case) Res {
	s := c.In
	switch c.Kind {
	case "cascade":
		wb, wf, pass, gates := cascade(s)
		b, f := lib.IsSQLi(s)
		if b != wb || f != wf {
			return fail("IsSQLi returned (%v,%q); the first firing context on fresh state gives (%v,%q) [pass %d, gates open %q]", b, f, wb, wf, pass, gates)
		}
		res := Res{}
		if pass >= 0 {
			res.Class = fmt.Sprintf("fires_in_pass_%d", pass)
			res.NT = pass > 0
		} else {
			// nothing fired although more than one reading was evaluated
			if gates != "" {
				res.NT, res.Class = true, "no_fire_after_"+gates
			} else {
				res.Class = "no_pass_fires"
			}
		}
		return res
	case "embed":
		if s == "" {
			return Res{}
		}
		res := Res{}
		for _, q := range []struct {
			ch   string
			flag int
		}{{"'", fSingle}, {"\"", fDouble}} {
			for _, d := range []int{fANSI, fMySQL} {
				ta, fa, _, va, sa := lib.VFingerprint(s, q.flag|d)
				tb, fb, _, vb, sb := lib.VFingerprint(q.ch+s, fNone|d)
				if fa != fb {
					return fail("reading inside %s (%s) gives fingerprint %q, reading %s+x as-is gives %q", q.ch, modeName(q.flag|d), fa, q.ch, fb)
				}
				if va != vb && fa != "sos" && fa != "s&s" {
					return fail("inside %s (%s): fingerprint %q, verdict %v vs %v for the embedded reading", q.ch, modeName(q.flag|d), fa, va, vb)
				}
				if sa.Tokens != sb.Tokens || (sa.DDX != 0) != (sb.DDX != 0) || (sa.Hash != 0) != (sb.Hash != 0) {
					return fail("inside %s (%s): statistics %+v vs %+v for the embedded reading", q.ch, modeName(q.flag|d), sa, sb)
				}
				if fa != "X" {
					if len(ta) != len(tb) {
						return fail("inside %s (%s): folded token counts %d vs %d", q.ch, modeName(q.flag|d), len(ta), len(tb))
					}
					for i := range ta {
						x, y := ta[i], tb[i]
						if x.Cat != y.Cat || x.Val != y.Val || x.Len != y.Len || x.Close != y.Close {
							return fail("inside %s (%s): folded token %d %s vs %s", q.ch, modeName(q.flag|d), i, showTok(x), showTok(y))
						}
					}
				}
				if va {
					res.NT = true
					res.Class = "embed_verdict_true"
				}
			}
		}
		return res
	}
	return Res{}
}

// gateInputs: attacks that fire only in a late pass, and near misses with a closed gate.
var c12Gated = []string{"1 union select 1", "1' union select 1 -- ", "1\" union select 1 -- ", "x' or 1=1 #", "x\" or 1=1 #", "1 #\nunion select 1", "1 --x\nunion select 1", "1' --x\nunion select 1", "x' #\n or 1=1", "x\" #\n or 1=1",
	"1 or 1=1 #", "1 --x\n or 1=1", "' or 1=1 --x", "\" or \"\"=\"", "' or ''='", "1' and sleep(5)#", "1\" and sleep(5)#", "a' #\nunion select 1", "a\" --x\nunion select 1", "--x\n1 union select 1", "#\n1 union select 1", "1-- -\nunion", "1 --\n or 1=1", "admin'--", "admin\"--", "admin'#", "admin\"#", "1'--x", "1\"#x",
	// state that must not survive from one reading into the next
	"x\" or 1=1 -- it's #1", "admin\" or 1=1 -- don't tell #1", "foo --1 /* bar", "order_id --x /* pending review */", "admin' #\"--", "1'#\"--", "'=\"=\"", "'#'--\"",
	"hello world /* it'", "a b /* '", "1 2 /*'", "a' b /* \"", "rock' and roll", "1' and x", "rock\" and roll", "O'Brien\" or 1=1 -- ", "x\" or 'a'='a", "\\' or 1=1 -- ", "\\\\' or 1=1 -- ", "\\\\\\\\' union select password from users where id=1 -- "}

func TestC12(t *testing.T) {
	c := NewCheck(t, "C12", "kind cascade: IsSQLi(s) must equal (verdict,fingerprint) of the first firing element of [asis/ANSI, asis/MySQL if that ANSI pass counted # or --x, '/ANSI if s has ', '/MySQL if that pass counted, \"/MySQL if s has \"], each evaluated on a fresh state through the accessor; kind embed: for q in {',\"} and both dialects, reading s inside q and reading q+s as-is give equal fingerprint, statistics and folded tokens (class, value, length, close mark), and equal verdicts unless the fingerprint is sos or s&s; non-trivial = fires in a pass other than the first, or nothing fires although at least one gate was open (cascade; a closed gate can never hide a firing pass, because without the gate byte the gated reading equals an earlier one or is a single unclosed string) / verdict true (embed); enumerations duplicate-free, random parts deduplicated by FNV-64")
	c.rec.Assume = []string{"per-context results are read through VFingerprint on fresh state"}
	defer c.Finish()
	both := func(w *Worker, s string) {
		w.Judge(ev.Case{Kind: "cascade", In: s})
		w.Judge(ev.Case{Kind: "embed", In: s})
	}
	p := c.rec.NewPart("tokens_exhaustive", "every space-joined sequence of 1..4 atoms over the token atoms extended with quote and comment gates", false, true, "")
	atoms := append(append([]string{}, tokenAtoms...), "'", "\"", "#", "--x", "-- ", "#\n", "/*", "--1")
	c.EnumSeq(p, atoms, " ", 1, pick(3, 4), both)
	Lb := pick(3, 4)
	p = c.rec.NewPart("bytes_exhaustive", fmt.Sprintf("every string of length 1..%d over the SQL byte-class alphabet", Lb), false, true, "")
	c.EnumSeq(p, gen.AlphaSQL, "", 1, Lb, both)
	att := attackInputs()
	p = c.rec.NewPart("attack_grammar", "one plain derivation per kept attack triple (fires in all five passes as first-firing pass)", false, true, "")
	c.ParRange(p, int64(len(att)), func(w *Worker, i int64) { both(w, att[i]) })
	p = c.rec.NewPart("gated_inputs", "hand-listed late-pass attacks and closed-gate near misses, each with every prefix", false, true, "")
	var gi []string
	for _, s := range c12Gated {
		for k := 1; k <= len(s); k++ {
			gi = append(gi, s[:k])
		}
	}
	c.ParRange(p, int64(len(gi)), func(w *Worker, i int64) { both(w, gi[i]) })

	fpr, _, _ := fpRealisations()
	p = c.rec.NewPart("fingerprint_realisations", "one or two inputs per realisable blacklist key (see C06), also behind a quote", false, true, "")
	c.ParRange(p, int64(len(fpr)), func(w *Worker, i int64) {
		both(w, fpr[i])
		both(w, "x' "+fpr[i])
		both(w, "x\" "+fpr[i])
	})
	bnd := sqlBoundaryInputs()
	p = c.rec.NewPart("boundary_inputs", "slot-, clip- and length-boundary inputs (see C06)", false, true, "")
	c.ParRange(p, int64(len(bnd)), func(w *Worker, i int64) { both(w, bnd[i]) })

	g := gen.SQLInput()
	p = c.rec.NewPart("rapid_fragments", "rapid over the SQL fragment grammar", true, false, "")
	c.Rapid(p, 8, pick(100000, 900000), func(rt *rapid.T, sh int) ev.Case {
		k := "cascade"
		if rapid.Bool().Draw(rt, "kind") {
			k = "embed"
		}
		return ev.Case{Kind: k, In: g.Draw(rt, "s")}
	})
	p = c.rec.NewPart("rapid_gate_mutants", "rapid: attack member / gated input with inserted or removed gate bytes (', \", #, --x, -- , LF) and 1-4 generic edits", true, false, "")
	c.Rapid(p, 8, pick(80000, 700000), func(rt *rapid.T, sh int) ev.Case {
		var s string
		if rapid.Bool().Draw(rt, "src") {
			s = rapid.SampledFrom(att).Draw(rt, "att")
		} else {
			s = rapid.SampledFrom(c12Gated).Draw(rt, "gated")
		}
		for k := rapid.IntRange(0, 2).Draw(rt, "gates"); k > 0; k-- {
			pos := rapid.IntRange(0, len(s)).Draw(rt, "pos")
			s = s[:pos] + rapid.SampledFrom([]string{"'", "\"", "#", "--x", "-- ", "\n", "#\n", "--x\n"}).Draw(rt, "g") + s[pos:]
		}
		if rapid.IntRange(0, 2).Draw(rt, "mut") == 0 {
			s = gen.Mutate(rt, s, gen.FragSQL)
		}
		k := "cascade"
		if rapid.IntRange(0, 2).Draw(rt, "kind") == 0 {
			k = "embed"
		}
		return ev.Case{Kind: k, In: s}
	})
	c.rec.Require("fires_in_pass_0", "fires_in_pass_1", "fires_in_pass_2", "fires_in_pass_3", "fires_in_pass_4", "no_fire_after_m", "no_fire_after_s", "no_fire_after_d", "no_fire_after_msMd", "embed_verdict_true")
}
