package props

import (
	"fmt"
	"strings"
	"sync"
	"testing"

	lib "github.com/corazawaf/libinjection-go"
	"pgregory.net/rapid"
	"verifh/ev"
	"verifh/gen"
)

// C19 - script-capable URL schemes are recognised through any character encoding;
// decoder contract.

func init() { registry["C19"] = c19Oracle }

var c19Schemes = []string{"javascript:", "vbscript:", "data:", "view-source:"}

// specDecode: value of the character (reference) at the head of s per the property's
// statement, written independently of refxss: decimal / hexadecimal references with or
// without ';', leading zeros allowed, values above 0x1000FF are a literal ampersand.
func specDecode(s string) (val, n int) {
	if len(s) == 0 {
		return -1, 0
	}
	if s[0] != '&' {
		return int(s[0]), 1
	}
	if len(s) < 3 || s[1] != '#' {
		return '&', 1
	}
	i, base := 2, 10
	if s[2] == 'x' || s[2] == 'X' {
		i, base = 3, 16
	}
	dv := func(b byte) int {
		switch {
		case b >= '0' && b <= '9':
			return int(b - '0')
		case base == 16 && b >= 'a' && b <= 'f':
			return int(b-'a') + 10
		case base == 16 && b >= 'A' && b <= 'F':
			return int(b-'A') + 10
		}
		return -1
	}
	if i >= len(s) || dv(s[i]) < 0 {
		return '&', 1
	}
	v := 0
	for ; i < len(s); i++ {
		if s[i] == ';' {
			return v, i + 1
		}
		d := dv(s[i])
		if d < 0 {
			return v, i
		}
		v = v*base + d
		if v > 0x1000FF {
			return '&', 1
		}
	}
	return v, i
}

// decodesToScheme re-derives, with specDecode, that the value really is an encoding of
// junk* scheme...: leading bytes <= 0x20 / >= 0x7F stripped, references decoded, leading
// decoded bytes <= 0x20 skipped, NUL and LF ignored, ASCII case folded.
func decodesToScheme(v string) bool {
	i := 0
	for i < len(v) && (v[i] <= 32 || v[i] >= 127) {
		i++
	}
	v = v[i:]
	var out []byte
	lead := true
	for len(v) > 0 {
		c, n := specDecode(v)
		if n <= 0 {
			return false
		}
		v = v[n:]
		if lead && c <= 32 {
			continue
		}
		lead = false
		if c == 0 || c == 10 {
			continue
		}
		if c > 255 {
			c = '?'
		}
		out = append(out, byte(c))
	}
	d := gen.LowerASCII(string(out))
	for _, sc := range c19Schemes {
		if strings.HasPrefix(d, sc) {
			return true
		}
	}
	return false
}

var (
	urlAttrOnce sync.Once
	urlAttrVal  []string
)

func urlAttrList() []string {
	urlAttrOnce.Do(func() {
		for _, a := range lib.VBlackAttrs() {
			if a.Type == 2 {
				urlAttrVal = append(urlAttrVal, gen.LowerASCII(a.Name))
			}
		}
	})
	return urlAttrVal
}

func c19Oracle(c ev.Case) Res {
	switch c.Kind {
	case "decode":
		s := c.In
		v, n := lib.VHTMLDecode(s)
		wv, wn := specDecode(s)
		if len(s) == 0 {
			if n != 0 {
				return fail("decoder consumed %d bytes of the empty string", n)
			}
			return Res{}
		}
		if n < 1 || n > len(s) {
			return fail("decoder consumed %d bytes of a %d-byte value", n, len(s))
		}
		if v != wv || n != wn {
			return fail("decoder returned (value %d, consumed %d), the specification gives (%d, %d)", v, n, wv, wn)
		}
		nt := len(s) >= 4 && s[0] == '&' && s[1] == '#' && wn >= 4
		cls := "decode_plain"
		if nt {
			cls = "decode_reference"
		}
		if wv == '&' && wn == 1 && len(s) > 8 {
			cls = "decode_overflow_or_malformed"
		}
		return Res{NT: nt, Class: cls}
	case "url", "url_sampled":
		e := c.In
		if !decodesToScheme(e) {
			return Res{Class: "outside_domain_" + c.Kind}
		}
		if !lib.VIsBlackURL(e) {
			return fail("URL value is an encoding of a script-capable scheme but the URL predicate says harmless")
		}
		// through the public API, for every URL-typed attribute, with a quote the value does not contain
		q := ""
		switch {
		case !strings.ContainsAny(e, "'"):
			q = "'"
		case !strings.ContainsAny(e, "\""):
			q = "\""
		case !strings.ContainsAny(e, "`"):
			q = "`"
		}
		if q != "" {
			attr := urlAttrList()[c.N%len(urlAttrList())]
			doc := "<a " + attr + "=" + q + e + q + ">"
			if !lib.IsXSS(doc) {
				return fail("IsXSS(%q) is false although the %s value encodes a script-capable scheme", doc, attr)
			}
		}
		enc := strings.Contains(e, "&#")
		cls := "url_literal"
		if enc {
			cls = "url_encoded"
		}
		return Res{NT: enc, Class: cls}
	}
	return Res{}
}

// encodings of one byte (index 0..5): literal, other case, &#D;, &#D (only if next is not a digit), &#0..0D;, &#xH;, &#XH (only if next is not hex)
func encodeChoice(b byte, choice int, next byte, hasNext bool) string {
	nextDigit := hasNext && next >= '0' && next <= '9'
	nextHex := hasNext && isHex(next)
	switch choice {
	case 1:
		if gen.IsLetter(b) {
			return string([]byte{b ^ 0x20})
		}
		return string([]byte{b})
	case 2:
		return fmt.Sprintf("&#%d;", b)
	case 3:
		if !nextDigit && hasNext && next != ';' {
			return fmt.Sprintf("&#%d", b)
		}
		return fmt.Sprintf("&#%d;", b)
	case 4:
		return fmt.Sprintf("&#000%d;", b)
	case 5:
		return fmt.Sprintf("&#x%x;", b)
	case 6:
		if !nextHex && hasNext && next != ';' {
			return fmt.Sprintf("&#X%X", b)
		}
		return fmt.Sprintf("&#X%X;", b)
	}
	return string([]byte{b})
}

// encodeScheme encodes scheme with per-byte choices given as digits of `code` in base 7.
// A reference without ';' must be followed by a literal byte that cannot extend it, so
// the next byte's own first character is what matters: after a no-semicolon reference the
// following byte is forced literal.
func encodeScheme(sc string, code uint64) string {
	var sb strings.Builder
	forceLiteral := false
	for i := 0; i < len(sc); i++ {
		ch := int(code % 7)
		code /= 7
		if forceLiteral {
			ch %= 2
			forceLiteral = false
		}
		var next byte
		has := i+1 < len(sc)
		if has {
			next = sc[i+1]
		}
		e := encodeChoice(sc[i], ch, next, has)
		if (ch == 3 || ch == 6) && !strings.HasSuffix(e, ";") {
			forceLiteral = true
		}
		sb.WriteString(e)
	}
	return sb.String()
}

// decoderBoundaryRefs: references around every numeric limit a decoder can have.
func decoderBoundaryRefs() []string {
	var bnd []string
	for _, v := range []int{0, 1, 9, 10, 31, 32, 33, 127, 128, 255, 256, 0xFFFF, 0x10000, 0x10FFFF, 0x1000FE, 0x1000FF, 0x100100, 0x100101, 0x1000FF * 10, 0x1000FF*16 + 15, 0x7FFFFFFF, 0xFFFFFFF, 0x80000000, 0xFFFFFFFF, 0x100000000, 0x10000006A} {
		for _, f := range []string{"&#%d;", "&#%d", "&#%dx", "&#0%d;", "&#x%x;", "&#x%x", "&#X%X;", "&#x0%xg", "&#x%x;;", "&#%d&#%[1]d;", "&#x000000%x;", "&#0000000%d;", "&#x0000000%x", "&#00000000%d"} {
			bnd = append(bnd, fmt.Sprintf(f, v))
		}
	}
	for _, s := range []string{"&#x1000FF0", "&#1048831", "&#10488310", "&#99999999999999999999;", "&#xFFFFFFFFFFFFFFFFFFFF;", "&#x00000000000000000041;", "&#0000000000000000000065;", "&#18446744073709551681;", "&#x10000000000000041;",
		"&#x8000000000000000;", "&#x7FFFFFFFFFFFFFFF;", "&#xFFFFFFFFFFFFFFFF;", "&#x1000000000000006A;", "&#9223372036854775807;", "&#9223372036854775808;", "&#9999999999999999999;", "&#18446744073709551615;", "&#18446744073709551616;", "&#18446744073709551722;",
		"&#x8000000000000041", "&#xF000000000000000x", "&#x000006A;", "&#x0000006A;", "&#x00000006A", "&#00000106;", "&#000000106;", "&#0000000106"} {
		bnd = append(bnd, s)
	}
	// spellings that the general number parsers of the standard library accept (sign, base prefix, digit
	// separator, exponent, blanks, non-ASCII digits) and the reference decoder does not
	for _, d := range []string{"+106", "-106", "1_06", "0x6a", "0X6A", "0b1101010", "0o152", "0152", "1e2", "106.0", " 106", "106 ", "\t106", "\uff11\uff10\uff16", "\u0661\u0660\u0666", "1\uff10\uff16", "+0", "-0", "--106", "x6a", "x+6a", "x-6a", "x6_a", "x0x6a", "x 6a", "x6a ", "x\uff16a", "x6\uff41", "X6A.0", "xx6a"} {
		bnd = append(bnd, "&#"+d+";", "&#"+d, "&#"+d+";avascript:x", "j&#"+d+";")
	}
	return bnd
}

var c19Junk = []string{"", " ", "\t", "\n", "\x01", "\x7f", "\x80", "\xff", "\xa0 ", "&#9;", "&#x20;", "&#0;", "&#32", " &#10;\x00"}
var c19Insert = []string{"\x00", "\n", "&#0;", "&#10;", "&#x0A;", "&#x0;", "&#00;"}

func TestC19(t *testing.T) {
	c := NewCheck(t, "C19", "kind url: junk + per-byte encodings of a scheme (literal either case, &#D; &#D &#000D; &#xH; &#XH) + interleaved raw/encoded NUL and LF + rest; the oracle first re-derives with an independent decoder that the value is in the domain (decodes to a string beginning with the scheme), then requires the URL predicate to be true and IsXSS(<a ATTR=q..q>) to be true for a URL-typed attribute (rotating over all of them); kind decode: decoder result == specification value and 1 <= consumed <= |s| (0 only for empty), values > 0x1000FF yield a literal ampersand; exhaustive parts duplicate-free, random parts deduplicated by FNV-64; non-trivial = at least one encoded byte (url) / a reference of >= 2 digits (decode)")
	c.rec.Assume = []string{"URL predicate and decoder reached through the accessors; IsXSS through the public API"}
	defer c.Finish()

	// oracle 1: exhaustive encodings for data: (7^5), 3-choice-per-byte for the others is too large for view-source;
	// enumerate 2 choices per byte (literal / one encoding family) for the long schemes
	p := c.rec.NewPart("data_scheme_all_encodings", "data: with every one of 7^5 per-byte encoding choices x 14 leading-junk forms", false, true, "7^5*14")
	c.ParRange(p, pow(7, 5), func(w *Worker, i int64) {
		e := encodeScheme("data:", uint64(i))
		for j, junk := range c19Junk {
			w.Judge(ev.Case{Kind: "url", N: int(i) + j, In: junk + e + "x"})
		}
	})
	for _, sc := range c19Schemes[:2] {
		sc := sc
		n := len(sc)
		p = c.rec.NewPart("two_choice_"+strings.TrimSuffix(sc, ":"), fmt.Sprintf("%s with literal-or-family choice per byte (2^%d) for each of 6 encoding families, one insertion position of NUL/LF forms", sc, n), false, true, "")
		c.ParRange(p, int64(1)<<n, func(w *Worker, mask int64) {
			for fam := 1; fam <= 6; fam++ {
				var code uint64
				mul := uint64(1)
				for i := 0; i < n; i++ {
					if mask>>i&1 == 1 {
						code += uint64(fam) * mul
					}
					mul *= 7
				}
				e := encodeScheme(sc, code)
				w.Judge(ev.Case{Kind: "url", N: int(mask) + fam, In: e + "alert(1)"})
				if fam == 1 {
					ins := c19Insert[int(mask)%len(c19Insert)]
					pos := 1 + int(mask)%(n-1)
					// insertion between two encoded bytes: only sound where it cannot extend a reference
					e2 := encodeScheme(sc[:pos], code) + ins + encodeScheme(sc[pos:], code/uint64(pow(7, pos)))
					w.Judge(ev.Case{Kind: "url", N: int(mask), In: c19Junk[int(mask)%len(c19Junk)] + e2})
				}
			}
		})
	}
	// realistic bodies behind the scheme: what follows the scheme word must not matter
	rests := []string{"", "x", "void(0)", "void(0);", "void(0);alert(document.cookie)", "void 0", ";", "//", "alert('&#8364;')", "alert('\u20ac')", "alert(&#x20AC;)", "&#256;", "&#xFFFF;x", "&#x1000FF;", "&#x100100;", "%0aalert(1)", "history.back()", "false", "return false", "text/html,<b>", "text/html;base64,PHNjcmlwdD4=", "image/png;base64,iVBOR", ",", "http://example.com/", strings.Repeat("a", 300), strings.Repeat("&#8364;", 50), "&", "&#", "&#x", "\x00", "\n", "#", "?"}
	p = c.rec.NewPart("scheme_bodies", fmt.Sprintf("4 schemes x 7 uniform encodings x %d bodies behind the scheme (placeholders such as void(0), references of 256 and more, long bodies, data: media types) x 3 junk prefixes", len(rests)), false, true, "")
	c.ParRange(p, int64(len(c19Schemes)*7*len(rests)), func(w *Worker, i int64) {
		sc := c19Schemes[int(i)%len(c19Schemes)]
		fam := int(i) / len(c19Schemes) % 7
		rest := rests[int(i)/len(c19Schemes)/7]
		var all uint64
		for k := 0; k < len(sc); k++ {
			all = all*7 + uint64(fam)
		}
		for _, junk := range []string{"", " ", "\x01\t"} {
			w.Judge(ev.Case{Kind: "url", N: int(i), In: junk + encodeScheme(sc, all) + rest})
		}
	})
	p = c.rec.NewPart("view_source_families", "view-source: with each encoding family applied to every single byte and to all bytes", false, true, "")
	c.ParRange(p, 12*7, func(w *Worker, i int64) {
		pos, fam := int(i/7), int(i%7)
		var code uint64
		if pos < 12 {
			code = uint64(fam) * uint64(pow(7, pos))
		}
		w.Judge(ev.Case{Kind: "url", N: int(i), In: encodeScheme("view-source:", code) + "x"})
		var all uint64
		for k := 0; k < 12; k++ {
			all = all*7 + uint64(fam)
		}
		w.Judge(ev.Case{Kind: "url", N: int(i), In: encodeScheme("view-source:", all)})
	})

	// long runs of ignorable characters: 1..100 raw or encoded NUL / LF inside each gap of the scheme,
	// and 1..100 encoded leading blanks in front of it (decode-step and buffer bounds)
	var longs []string
	for _, sc := range c19Schemes {
		for _, n := range []int{1, 5, 20, 21, 22, 24, 25, 28, 29, 30, 31, 32, 33, 59, 60, 61, 62, 63, 64, 65, 100, 300, 1100, 5000} {
			for _, ig := range []string{"\x00", "\n", "&#0;", "&#10;", "&#x0A;"} {
				run := strings.Repeat(ig, n)
				for gap := 1; gap < len(sc); gap += 3 {
					longs = append(longs, sc[:gap]+run+sc[gap:]+"alert(1)")
				}
				each := strings.Repeat(ig, 1+n/len(sc))
				var sb strings.Builder
				for i := 0; i < len(sc); i++ {
					sb.WriteByte(sc[i])
					if i+1 < len(sc) {
						sb.WriteString(each)
					}
				}
				longs = append(longs, sb.String())
			}
			for _, lead := range []string{"&#9;", "&#x20;", "&#32", "&#1;", " ", "\x7f", "\xa0"} {
				longs = append(longs, strings.Repeat(lead, n)+sc+"x")
			}
			longs = append(longs, sc+strings.Repeat("a", n*50))
		}
	}
	p = c.rec.NewPart("long_ignorable_runs", "every scheme with runs of 1..100 raw/encoded NUL/LF in one gap or spread over all gaps, 1..100 leading encoded blanks, long tails", false, true, "")
	c.ParRange(p, int64(len(longs)), func(w *Worker, i int64) { w.Judge(ev.Case{Kind: "url", N: int(i), In: longs[i]}) })

	ug := rapid.Custom(func(t *rapid.T) string {
		sc := rapid.SampledFrom(c19Schemes).Draw(t, "scheme")
		var sb strings.Builder
		for k := rapid.IntRange(0, 2).Draw(t, "njunk"); k > 0; k-- {
			sb.WriteString(rapid.SampledFrom(c19Junk).Draw(t, "junk"))
		}
		forceLiteral := false
		for i := 0; i < len(sc); i++ {
			ch := rapid.IntRange(0, 6).Draw(t, "enc")
			if forceLiteral {
				ch %= 2
				forceLiteral = false
			}
			var next byte
			has := i+1 < len(sc)
			if has {
				next = sc[i+1]
			}
			e := encodeChoice(sc[i], ch, next, has)
			if (ch == 3 || ch == 6) && !strings.HasSuffix(e, ";") {
				forceLiteral = true
			}
			sb.WriteString(e)
			if has && !forceLiteral && rapid.IntRange(0, 5).Draw(t, "ins") == 0 {
				sb.WriteString(rapid.SampledFrom(c19Insert).Draw(t, "insert"))
			}
		}
		sb.WriteString(rapid.SampledFrom([]string{"", "alert(1)", "x", "&#", "&#x", "&#x1000ff;", "//x", " "}).Draw(t, "rest"))
		return sb.String()
	})
	p = c.rec.NewPart("rapid_url_encodings", "rapid: scheme x per-byte encoding draw x junk x inserted NUL/LF x rest (values outside the domain are recognised by the oracle and not counted)", true, false, "")
	c.Rapid(p, 8, pick(100000, 900000), func(rt *rapid.T, sh int) ev.Case {
		return ev.Case{Kind: "url_sampled", N: rapid.IntRange(0, 1000).Draw(rt, "attr"), In: ug.Draw(rt, "v")}
	})

	// oracle 2: decoder
	Ld := pick(6, 7)
	p = c.rec.NewPart("decoder_exhaustive", fmt.Sprintf("every string of length 0..%d over %v", Ld, decodeAlpha), false, true, "")
	c.EnumSeq(p, decodeAlpha, "", 0, Ld, func(w *Worker, s string) { w.Judge(ev.Case{Kind: "decode", In: s}) })
	bnd := decoderBoundaryRefs()
	p = c.rec.NewPart("decoder_boundaries", "references around 0x1000FE / 0x1000FF / 0x100100 in decimal and hex, with and without ';', leading zeros, 64-bit wrap-around candidates", false, true, "")
	c.ParRange(p, int64(len(bnd)), func(w *Worker, i int64) { w.Judge(ev.Case{Kind: "decode", In: bnd[i]}) })
	p = c.rec.NewPart("rapid_decoder", "rapid: '&#' [xX]? digits{0..24} terminator rest, and arbitrary strings over the decoder alphabet", true, false, "")
	c.Rapid(p, 4, pick(80000, 700000), func(rt *rapid.T, sh int) ev.Case {
		if rapid.Bool().Draw(rt, "free") {
			return ev.Case{Kind: "decode", In: rapid.StringOfN(rapid.SampledFrom([]rune("&#xX;0123456789aAfFgG \x00j")), 0, 16, -1).Draw(rt, "in")}
		}
		s := "&#" + rapid.SampledFrom([]string{"", "x", "X"}).Draw(rt, "x")
		s += rapid.StringOfN(rapid.SampledFrom([]rune("0123456789abcdefABCDEF")), 0, 24, -1).Draw(rt, "digits")
		s += rapid.SampledFrom([]string{"", ";", "g", " ", "&", "x", ";;"}).Draw(rt, "term") + rapid.SampledFrom([]string{"", "a", "&#65;"}).Draw(rt, "rest")
		return ev.Case{Kind: "decode", In: s}
	})
	c.rec.Require("url_encoded", "url_literal", "decode_reference", "decode_overflow_or_malformed")
}
