package props

import (
	"bytes"
	"encoding/json"
	"fmt"
	"hash/crc32"
	"hash/fnv"
	"os"
	"path/filepath"
	"sort"
	"sync"
	"testing"

	"verifh/gen"
)

// Hostile constants for C05: pairs of inputs of equal length whose results differ but which collide
// under the non-cryptographic hashes a result cache is most likely to be keyed with (32-bit FNV-1a,
// FNV-1, CRC-32). A cache that compares only (length, hash) hands the second of a pair the first one's
// answer. The pairs are computed once by TestGenCollisions and committed in testdata/collisions.json.

type collisionPair struct {
	Hash string `json:"hash"`
	A    string `json:"a"` // positive (attack / dangerous value)
	B    string `json:"b"` // negative (benign)
}

func hashers() map[string]func(string) uint32 {
	return map[string]func(string) uint32{
		"fnv1a32": func(s string) uint32 { h := fnv.New32a(); h.Write([]byte(s)); return h.Sum32() },
		"fnv1_32": func(s string) uint32 { h := fnv.New32(); h.Write([]byte(s)); return h.Sum32() },
		"crc32":   func(s string) uint32 { return crc32.ChecksumIEEE([]byte(s)) },
	}
}

// families: format strings with one %07d counter; A-side and B-side have equal length for equal counters width
var collisionFamilies = [][2]string{
	{"id=%07d UNION SELECT username, password FROM users WHERE role = 1 LIMIT 1", "utm_source=newsletter; utm_campaign=spring; session=%07d; theme=dark; v=2"},
	{"-1 union select null,version() -- %07d", "qty=1 colour=blue size=large ref=%07d."},
	{"javascript:alert(%07d)//padded-to-length", "https://example.com/items/%07d/detail.ht"},
	{"<a href=\"javascript:alert(%07d)\">click</a>", "<a href=\"https://example.org/%07d\">ok.</a>"},
	{"<img src=x onerror=alert(%07d)> some trailing text here", "<img src=x alt=\"picture numbe %07d\"> some trailing text"},
	{"x' or 1=1 -- %07d and some more text to pass sixty-four bytes in total length", "x  or 1=1 -- %07d and some more text to pass sixty-four bytes in total length"},
}

func TestGenCollisions(t *testing.T) {
	if os.Getenv("VERIF_GEN_COLLISIONS") == "" {
		t.Skip()
	}
	var out []collisionPair
	for name, h := range hashers() {
		for _, fam := range collisionFamilies {
			if len(fmt.Sprintf(fam[0], 0)) != len(fmt.Sprintf(fam[1], 0)) {
				t.Fatalf("family lengths differ: %q %q", fam[0], fam[1])
			}
			idx := map[uint32]int{}
			const n = 1 << 20
			for i := 0; i < n; i++ {
				idx[h(fmt.Sprintf(fam[0], i))] = i
			}
			found := 0
			for j := 0; j < n && found < 2; j++ {
				b := fmt.Sprintf(fam[1], j)
				if i, ok := idx[h(b)]; ok {
					out = append(out, collisionPair{name, fmt.Sprintf(fam[0], i), b})
					found++
				}
			}
		}
	}
	raw, _ := json.MarshalIndent(out, "", " ")
	os.MkdirAll("testdata", 0o755)
	if err := os.WriteFile(filepath.Join("testdata", "collisions.json"), append(raw, '\n'), 0o644); err != nil {
		t.Fatal(err)
	}
	fmt.Println("collision pairs:", len(out))
}

func loadCollisions() []collisionPair {
	raw, err := os.ReadFile(filepath.Join(verifDirEarly(), "harness", "props", "testdata", "collisions.json"))
	if err != nil {
		return nil
	}
	var out []collisionPair
	json.Unmarshal(raw, &out)
	return out
}

// ---------------------------------------------------------------------------
// Word-level collisions: benign identifiers whose 32-bit hash equals the hash of a keyword-table
// word, for the hash functions a table index is most likely to be built with, and for both case
// conventions (hash of the upper-cased word against the table's upper-case keys; hash of the
// lower-cased word against lower-cased keys). A look-up that trusts the hash and does not
// compare the key text turns exactly these identifiers into keywords. All the hash functions
// used are invertible byte by byte, so the identifiers are found by meeting in the middle:
// states reached from the start value through "id" + 4 characters against states from which 3
// more letters lead to the key's hash. They are computed at run time from the table of the tree
// under test (deterministic enumeration, no randomness).

type wordCollider struct {
	Word, Key, Hash string
	Typ             byte
}

type stepHash struct {
	name     string
	init     uint32
	step     func(h uint32, c byte) uint32
	unstep   func(h uint32, c byte) uint32
	finalXor uint32
}

func inv32(a uint32) uint32 { // inverse of an odd number modulo 2^32
	x := a
	for i := 0; i < 5; i++ {
		x *= 2 - a*x
	}
	return x
}

func crcStepper(name string, tab *crc32.Table) stepHash {
	var rev [256]byte
	for i := 0; i < 256; i++ {
		rev[tab[i]>>24] = byte(i)
	}
	return stepHash{name: name, init: 0xffffffff, finalXor: 0xffffffff,
		step: func(h uint32, c byte) uint32 { return tab[byte(h)^c] ^ h>>8 },
		unstep: func(h uint32, c byte) uint32 {
			i := rev[h>>24]
			return (h^tab[i])<<8 | uint32(i^c)
		}}
}

func stepHashers() []stepHash {
	const p = 16777619
	pi, i33, i31, i65599 := inv32(p), inv32(33), inv32(31), inv32(65599)
	return []stepHash{
		{name: "fnv1a32", init: 2166136261, step: func(h uint32, c byte) uint32 { return (h ^ uint32(c)) * p }, unstep: func(h uint32, c byte) uint32 { return h*pi ^ uint32(c) }},
		{name: "fnv1_32", init: 2166136261, step: func(h uint32, c byte) uint32 { return h*p ^ uint32(c) }, unstep: func(h uint32, c byte) uint32 { return (h ^ uint32(c)) * pi }},
		crcStepper("crc32", crc32.IEEETable),
		crcStepper("crc32c", crc32.MakeTable(crc32.Castagnoli)),
		{name: "djb2", init: 5381, step: func(h uint32, c byte) uint32 { return h*33 + uint32(c) }, unstep: func(h uint32, c byte) uint32 { return (h - uint32(c)) * i33 }},
		{name: "djb2x", init: 5381, step: func(h uint32, c byte) uint32 { return h*33 ^ uint32(c) }, unstep: func(h uint32, c byte) uint32 { return (h ^ uint32(c)) * i33 }},
		{name: "times31", init: 0, step: func(h uint32, c byte) uint32 { return h*31 + uint32(c) }, unstep: func(h uint32, c byte) uint32 { return (h - uint32(c)) * i31 }},
		{name: "sdbm", init: 0, step: func(h uint32, c byte) uint32 { return h*65599 + uint32(c) }, unstep: func(h uint32, c byte) uint32 { return (h - uint32(c)) * i65599 }},
	}
}

func (sh stepHash) sum(b []byte) uint32 {
	h := sh.init
	for _, c := range b {
		h = sh.step(h, c)
	}
	return h ^ sh.finalXor
}

var (
	wordColOnce sync.Once
	wordColVal  []wordCollider
)

// colliderTargets: up to 8 single-word keys per token type (shortest first), fingerprints excluded
func colliderTargets() []string {
	by := map[byte][]string{}
	for k, v := range kwTab() {
		ok := v != 'F' && len(k) >= 2
		for i := 0; i < len(k) && ok; i++ {
			ok = (k[i] >= 'A' && k[i] <= 'Z') || k[i] == '_'
		}
		if ok {
			by[v] = append(by[v], k)
		}
	}
	var out []string
	for _, ks := range by {
		sort.Slice(ks, func(i, j int) bool {
			if len(ks[i]) != len(ks[j]) {
				return len(ks[i]) < len(ks[j])
			}
			return ks[i] < ks[j]
		})
		if len(ks) > 8 {
			ks = ks[:8]
		}
		out = append(out, ks...)
	}
	sort.Strings(out)
	return out
}

func wordColliders() []wordCollider {
	wordColOnce.Do(func() {
		targets := colliderTargets()
		perKey := pick(3, 12)
		var mu sync.Mutex
		var wg sync.WaitGroup
		sem := make(chan struct{}, workers)
		for _, sh := range stepHashers() {
			for conv := 0; conv < 2; conv++ {
				sh, conv := sh, conv
				wg.Add(1)
				sem <- struct{}{}
				go func() {
					defer wg.Done()
					defer func() { <-sem }()
					// convention 0: the word is upper-cased before hashing; 1: lower-cased
					letters := []byte("abcdefghijklmnopqrstuvwxyz")
					mid := []byte("abcdefghijklmnopqrstuvwxyz0123456789_")
					pre := []byte("id")
					if conv == 0 {
						letters, mid, pre = bytes.ToUpper(letters), bytes.ToUpper(mid), bytes.ToUpper(pre)
					}
					type back struct {
						h    uint32
						key  uint16
						tail [3]byte
					}
					var backs []back
					filter := make([]uint64, 1<<18)
					for ki, k := range targets {
						kb := []byte(k)
						if conv == 1 {
							kb = bytes.ToLower(kb)
						}
						t := sh.sum(kb) ^ sh.finalXor // internal state
						for _, c3 := range letters {
							h3 := sh.unstep(t, c3)
							for _, c2 := range letters {
								h2 := sh.unstep(h3, c2)
								for _, c1 := range letters {
									h1 := sh.unstep(h2, c1)
									backs = append(backs, back{h1, uint16(ki), [3]byte{c1, c2, c3}})
									filter[h1>>8>>6] |= 1 << (h1 >> 8 & 63)
								}
							}
						}
					}
					sort.Slice(backs, func(i, j int) bool { return backs[i].h < backs[j].h })
					got := make([]int, len(targets))
					var found []wordCollider
					h0 := sh.init
					for _, c := range pre {
						h0 = sh.step(h0, c)
					}
					for _, a := range mid {
						ha := sh.step(h0, a)
						for _, b := range mid {
							hb := sh.step(ha, b)
							for _, c := range mid {
								hc := sh.step(hb, c)
								for _, d := range mid {
									hd := sh.step(hc, d)
									if filter[hd>>8>>6]&(1<<(hd>>8&63)) == 0 {
										continue
									}
									i := sort.Search(len(backs), func(i int) bool { return backs[i].h >= hd })
									for ; i < len(backs) && backs[i].h == hd; i++ {
										bk := backs[i]
										if got[bk.key] >= perKey {
											continue
										}
										word := append(append(append([]byte{}, pre...), a, b, c, d), bk.tail[:]...)
										kb := []byte(targets[bk.key])
										if conv == 1 {
											kb = bytes.ToLower(kb)
										}
										if sh.sum(word) != sh.sum(kb) {
											panic("collision search: hash mismatch for " + sh.name)
										}
										got[bk.key]++
										found = append(found, wordCollider{Word: gen.LowerASCII(string(word)), Key: targets[bk.key], Hash: fmt.Sprintf("%s/%d", sh.name, conv), Typ: kwTab()[targets[bk.key]]})
									}
								}
							}
						}
					}
					mu.Lock()
					wordColVal = append(wordColVal, found...)
					mu.Unlock()
				}()
			}
		}
		wg.Wait()
		sort.Slice(wordColVal, func(i, j int) bool {
			if wordColVal[i].Hash != wordColVal[j].Hash {
				return wordColVal[i].Hash < wordColVal[j].Hash
			}
			return wordColVal[i].Word < wordColVal[j].Word
		})
	})
	return wordColVal
}
