package props

import (
	"encoding/json"
	"fmt"
	"hash/crc32"
	"hash/fnv"
	"os"
	"path/filepath"
	"testing"
)

// Hostile constants for C05: pairs of inputs of equal length whose results differ but which collide
// under the non-cryptographic hashes a result cache is most likely to be keyed with (32-bit FNV-1a,
// FNV-1, CRC-32). A cache that compares only (length, hash) hands the second of a pair the first one's
// answer. The pairs are computed once by TestGenCollisions and committed in testdata/collisions.json.

type collisionPair struct {
	Hash string `json:"hash"`
	A    string `json:"a"` // positive (attack / dangerous value)
	B    string `json:"b"` // negative (benign)
}

func hashers() map[string]func(string) uint32 {
	return map[string]func(string) uint32{
		"fnv1a32": func(s string) uint32 { h := fnv.New32a(); h.Write([]byte(s)); return h.Sum32() },
		"fnv1_32": func(s string) uint32 { h := fnv.New32(); h.Write([]byte(s)); return h.Sum32() },
		"crc32":   func(s string) uint32 { return crc32.ChecksumIEEE([]byte(s)) },
	}
}

// families: format strings with one %07d counter; A-side and B-side have equal length for equal counters width
var collisionFamilies = [][2]string{
	{"id=%07d UNION SELECT username, password FROM users WHERE role = 1 LIMIT 1", "utm_source=newsletter; utm_campaign=spring; session=%07d; theme=dark; v=2"},
	{"-1 union select null,version() -- %07d", "qty=1 colour=blue size=large ref=%07d."},
	{"javascript:alert(%07d)//padded-to-length", "https://example.com/items/%07d/detail.ht"},
	{"<a href=\"javascript:alert(%07d)\">click</a>", "<a href=\"https://example.org/%07d\">ok.</a>"},
	{"<img src=x onerror=alert(%07d)> some trailing text here", "<img src=x alt=\"picture numbe %07d\"> some trailing text"},
	{"x' or 1=1 -- %07d and some more text to pass sixty-four bytes in total length", "x  or 1=1 -- %07d and some more text to pass sixty-four bytes in total length"},
}

func TestGenCollisions(t *testing.T) {
	if os.Getenv("VERIF_GEN_COLLISIONS") == "" {
		t.Skip()
	}
	var out []collisionPair
	for name, h := range hashers() {
		for _, fam := range collisionFamilies {
			if len(fmt.Sprintf(fam[0], 0)) != len(fmt.Sprintf(fam[1], 0)) {
				t.Fatalf("family lengths differ: %q %q", fam[0], fam[1])
			}
			idx := map[uint32]int{}
			const n = 1 << 20
			for i := 0; i < n; i++ {
				idx[h(fmt.Sprintf(fam[0], i))] = i
			}
			found := 0
			for j := 0; j < n && found < 2; j++ {
				b := fmt.Sprintf(fam[1], j)
				if i, ok := idx[h(b)]; ok {
					out = append(out, collisionPair{name, fmt.Sprintf(fam[0], i), b})
					found++
				}
			}
		}
	}
	raw, _ := json.MarshalIndent(out, "", " ")
	os.MkdirAll("testdata", 0o755)
	if err := os.WriteFile(filepath.Join("testdata", "collisions.json"), append(raw, '\n'), 0o644); err != nil {
		t.Fatal(err)
	}
	fmt.Println("collision pairs:", len(out))
}

func loadCollisions() []collisionPair {
	raw, err := os.ReadFile(filepath.Join(verifDirEarly(), "harness", "props", "testdata", "collisions.json"))
	if err != nil {
		return nil
	}
	var out []collisionPair
	json.Unmarshal(raw, &out)
	return out
}
