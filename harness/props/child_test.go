package props

import "os"

// childMain dispatches the child-process roles of the test binary (stack
// probe of C02, fresh-process oracle of C05). It returns true when the
// process was a child and has done its work.
func childMain() bool {
	switch os.Getenv("VERIF_CHILD") {
	case "":
		return false
	case "stack":
		stackChild()
		return true
	case "oracle":
		oracleChild()
		return true
	case "conc":
		concChild()
		return true
	case "journal":
		journalChild()
		return true
	}
	return false
}
