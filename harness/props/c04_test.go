package props

import (
	"fmt"
	"strings"
	"sync"
	"testing"

	lib "github.com/corazawaf/libinjection-go"
	"pgregory.net/rapid"
	"verifh/ev"
	"verifh/gen"
)

// C04 - canonical XSS vectors are detected in every HTML injection context.
// The grammar is built from the shipped lists (through the accessors), so additions
// are picked up. One production is excluded by rule: "name=" at end of input (no value
// token exists, so nothing is judged).

func init() { registry["C04"] = c04Oracle }

type xssVec struct {
	kind string // tag / event / attr / url / indirect / markup
	item string // list entry the vector is built from
	s    string
	// name span (for NUL / case obfuscation of the name only)
	nameOff, nameLen int
}

var (
	xssBreakouts = []string{"", ">", "x>", " >", "'>", "\">", "`>", "x'>", "x\" >", "x` >", "</b>", "-->",
		// element content behind other markup: empty and bogus comments, end tags with blanks, '/' or attributes, complete elements
		"<!-->", "<!-- >", "<%>", "<?>", "<!>", "</>", "</title >", "</p/>", "</p\n>", "<p>hello</p >", "\"></a >", "<b>x</b x=y>", "<p>x</p>", "<br/>", "<b x='1'>", "<![CDATA[x]]>", "<!--x-->", "text "}
	xssAttrBreaks = []string{"<a ", "<img src=x ", " ", "x ", "' ", "\" ", "` ", "x' ", "x\"/", "x`\t", "<b\n", "<b/", "<a\f", "<a\r", "<a x=1\t", "<a x='1'",
		// closing quote of the surrounding attribute value directly followed by the injected name (no separator)
		"'", "\"", "`", "x'", "x\"", "x`", "<a x=\"1\"", "<a x=`1`",
		// a start tag behind other markup (end tags with blanks or attributes, empty comments, complete elements)
		"<p>hello</p ><img src=x ", "</p ><a ", "</p x=y><a ", "<!--><a ", "<%><a ", "<b>x</b><a ", "<br/><a "}
	xssTagForms = []string{"<T>", "<T x>", "<T/>", "<T/x=1>", "<T\tx", "<T", "<T\nx=1>", "<T\fx>", "<T\r>"}
	xssValForms = []string{"=1", "=alert(1)", "='x'", "=\"x\"", "=`x`", " = 1", "\t=\n1", "=1>", "\f=\r'x'", "=x y"}
	xssSchemes  = []string{"javascript:alert(1)", "vbscript:x", "data:text/html,x", "view-source:x", "JaVaScRiPt:x", "&#106;avascript:x", "&#x6A;avascript:x", "&#X76iew-source:x", " \tjavascript:x", "\x01javascript:x", "jav&#x0A;ascript:x", "java\x00script:x", "&#0000106avascript:x", "\x7fdata:x", "\xa0vbscript:x", "VIEW-SOURCE:x", "d&#97;ta:x", "&#9;javascript:x",
		// long runs of ignorable characters (decode-step / buffer bounds)
		"j" + strings.Repeat("\x00", 40) + "avascript:x", strings.Repeat("&#9;", 40) + "javascript:x", "java" + strings.Repeat("&#10;", 70) + "script:x", "vb" + strings.Repeat("&#0;", 33) + "script:x", "d" + strings.Repeat("\x00", 29) + "ata:x"}
	xssMarkup = []string{"<!doctype html>", "<!DOCTYPE x", "<!DocType", "<!ENTITY x>", "<!entity", "<![if IE]>", "<!--[if gte IE 4]>", "<!--[IF x]>", "<?import x>", "<?IMPORT x", "<?xml version>", "<?XML x", "<?xml-stylesheet href=x?>", "<!--`-->", "<%`%>", "<!`>", "<?`",
		"<?xml >", "<?XmL >", "<![if]>", "<![iF ]>", "<%xml %>", "<!--[if]-->", "<?import>", "<!ENTITY>", "<?xml x", "<![if x"}
)

// numeric references with leading zeros (no limit on the digit count): each letter position of each scheme
func init() {
	for _, sc := range []string{"javascript:x", "vbscript:x", "data:x", "view-source:x"} {
		for i := 0; i < 3; i++ {
			for _, z := range []int{5, 8, 9, 12, 20, 60} {
				zeros := strings.Repeat("0", z)
				xssSchemes = append(xssSchemes,
					fmt.Sprintf("%s&#%s%d;%s", sc[:i], zeros, sc[i], sc[i+1:]),
					fmt.Sprintf("%s&#x%s%x;%s", sc[:i], zeros, sc[i], sc[i+1:]),
					fmt.Sprintf("%s&#X%s%X;%s", sc[:i], zeros, sc[i], sc[i+1:]))
			}
		}
	}
}

var (
	xssOnce sync.Once
	xssAll  []xssVec
)

func buildXSSGrammar() []xssVec {
	var out []xssVec
	for _, tg := range lib.VBlackTags() {
		lt := gen.LowerASCII(tg)
		for _, form := range xssTagForms {
			for _, b := range xssBreakouts {
				s := b + strings.Replace(form, "T", lt, 1)
				out = append(out, xssVec{"tag", tg, s, len(b) + 1, len(lt)})
			}
		}
	}
	var names []struct{ kind, item, name string }
	for _, e := range lib.VBlackEvents() {
		if e.Type == 1 {
			names = append(names, struct{ kind, item, name string }{"event", e.Name, "on" + gen.LowerASCII(e.Name)})
		}
	}
	for _, a := range lib.VBlackAttrs() {
		if a.Type == 1 || a.Type == 3 { // black or style-typed attributes fire on any value
			names = append(names, struct{ kind, item, name string }{"attr", a.Name, gen.LowerASCII(a.Name)})
		}
	}
	names = append(names, struct{ kind, item, name string }{"attr", "XMLNS", "xmlns"}, struct{ kind, item, name string }{"attr", "XLINK", "xlink"})
	for _, n := range names {
		for _, ab := range xssAttrBreaks {
			for _, v := range xssValForms {
				out = append(out, xssVec{n.kind, n.item, ab + n.name + v, len(ab), len(n.name)})
			}
		}
	}
	for _, a := range lib.VBlackAttrs() {
		la := gen.LowerASCII(a.Name)
		switch a.Type {
		case 2: // URL
			for _, ab := range xssAttrBreaks {
				for _, sc := range xssSchemes {
					for _, q := range []string{"", "'", "\"", "`"} {
						if q == "" && strings.ContainsAny(sc, " \t\f\r\n") {
							continue
						}
						out = append(out, xssVec{"url", a.Name, ab + la + "=" + q + sc + q, len(ab), len(la)})
					}
				}
			}
		case 4: // indirect: the value names a black attribute
			for _, ab := range xssAttrBreaks {
				for _, tgt := range []string{"onclick", "onerror", "ONLOAD", "xmlns", "datasrc", "on\x00click"} {
					for _, q := range []string{"", "'", "\"", "`"} {
						out = append(out, xssVec{"indirect", a.Name, ab + la + "=" + q + tgt + q, len(ab), len(la)})
					}
				}
			}
		}
	}
	for _, m := range xssMarkup {
		for _, b := range xssBreakouts {
			out = append(out, xssVec{"markup", m, b + m, 0, 0})
		}
	}
	return out
}

func xssGrammar() []xssVec {
	xssOnce.Do(func() { xssAll = buildXSSGrammar() })
	return xssAll
}

// xssVectors: the plain vectors, for the relational checks (C11, C13, C15).
func xssVectors() []string {
	g := xssGrammar()
	out := make([]string, len(g))
	for i := range g {
		out[i] = g[i].s
	}
	return out
}

func c04Oracle(c ev.Case) Res {
	if !lib.IsXSS(c.In) {
		return fail("grammar vector (%s) not detected as XSS", c.Kind)
	}
	return Res{NT: true, Class: "kind_" + c.Kind}
}

// obfuscate applies an obfuscation choice to the name span of a vector:
// 1 upper-case name, 2 alternating case over the whole vector's letters outside values?,
// 3 NUL in the middle of the name, 4 NUL after the first name byte + upper.
func obfuscateName(v xssVec, mode int) string {
	if v.nameLen < 2 {
		return v.s
	}
	name := v.s[v.nameOff : v.nameOff+v.nameLen]
	switch mode {
	case 1:
		name = gen.UpperASCII(name)
	case 2:
		b := []byte(name)
		for i := range b {
			if gen.IsLetter(b[i]) && i%2 == 0 {
				b[i] &^= 0x20
			}
		}
		name = string(b)
	case 3:
		name = name[:len(name)/2] + "\x00" + name[len(name)/2:]
	case 4:
		name = gen.UpperASCII(name[:1]) + "\x00\x00" + name[1:]
	case 5:
		name = name[:len(name)/2] + strings.Repeat("\x00", 130) + name[len(name)/2:]
	}
	return v.s[:v.nameOff] + name + v.s[v.nameOff+v.nameLen:]
}

func TestC04(t *testing.T) {
	c := NewCheck(t, "C04", "cases are vectors of the XSS grammar built from the shipped lists: every black tag x 9 tag forms x 12 breakout prefixes; every black event / black or style attribute x 24 attribute positions (inside a tag, or continuing each of the four attribute contexts, separators space TAB LF FF CR '/') x 10 value forms; every URL-typed attribute x 24 positions x 23 scheme spellings (case, decimal/hex references with and without ';', leading zeros, leading control/high bytes, embedded NUL/LF) x 4 quotings; indirect attribute x black targets; DOCTYPE/ENTITY/IE-conditional/processing-instruction/back-tick markup x breakouts; each also with the name upper-cased, alternating-cased and with NULs inserted; rapid draws per-letter case and NUL positions beyond that; excluded by rule: name= at end of input; oracle: IsXSS true; every vector is non-trivial; duplicates removed by construction (random part by FNV-64)")
	c.rec.Assume = []string{"the grammar is rule-defined (no calibration file); it was verified to be 100% detected on the repaired pinned tree"}
	c.noMinimise = true
	defer c.Finish()
	g := xssGrammar()
	p := c.rec.NewPart("grammar_exhaustive", fmt.Sprintf("%d vectors x {plain, upper name, alternating name, NUL in name, NULs after first byte + upper}", len(g)), false, true, "finite")
	var mu sync.Mutex
	used := map[string]bool{}
	c.ParRange(p, int64(len(g)), func(w *Worker, i int64) {
		v := g[i]
		seen := map[string]bool{}
		for m := 0; m <= 5; m++ {
			if m == 5 && i%11 != 0 {
				continue // 130-NUL names on every 11th vector
			}
			s := obfuscateName(v, m)
			if seen[s] {
				continue
			}
			seen[s] = true
			w.Judge(ev.Case{Kind: v.kind, In: s})
		}
		mu.Lock()
		used[v.kind+":"+v.item] = true
		mu.Unlock()
	})
	// per-list coverage: every tag, event, attribute used at least once
	missing := 0
	for _, tg := range lib.VBlackTags() {
		if !used["tag:"+tg] {
			missing++
		}
	}
	for _, e := range lib.VBlackEvents() {
		if e.Type == 1 && !used["event:"+e.Name] {
			missing++
		}
	}
	for _, a := range lib.VBlackAttrs() {
		k := map[int]string{1: "attr", 2: "url", 3: "attr", 4: "indirect"}[a.Type]
		if !used[k+":"+a.Name] {
			missing++
		}
	}
	c.rec.Extra["list_entries_used"] = len(used)
	c.rec.Extra["list_entries_never_used"] = missing
	if missing == 0 {
		c.rec.AddClass("every_list_entry_used", 1)
	}

	p = c.rec.NewPart("rapid_obfuscations", "rapid: vector x per-letter case mask over the whole vector x 0..3 NULs at drawn positions strictly inside the name", true, false, "")
	c.Rapid(p, 8, pick(80000, 900000), func(rt *rapid.T, sh int) ev.Case {
		v := g[rapid.IntRange(0, len(g)-1).Draw(rt, "vec")]
		b := []byte(v.s)
		ex := xssExempt(v.s)
		for i := range b {
			if gen.IsLetter(b[i]) && !ex[i] && rapid.IntRange(0, 2).Draw(rt, "flip") == 0 {
				b[i] ^= 0x20
			}
		}
		s := string(b)
		if v.nameLen >= 2 {
			for k := rapid.IntRange(0, 3).Draw(rt, "nuls"); k > 0; k-- {
				pos := v.nameOff + rapid.IntRange(1, v.nameLen-1).Draw(rt, "pos")
				s = s[:pos] + "\x00" + s[pos:]
			}
		}
		return ev.Case{Kind: v.kind, In: s}
	})
	c.rec.Require("kind_tag", "kind_event", "kind_attr", "kind_url", "kind_indirect", "kind_markup", "every_list_entry_used")
}
