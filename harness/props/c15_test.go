package props

import (
	"fmt"
	"strings"
	"testing"

	lib "github.com/corazawaf/libinjection-go"
	"pgregory.net/rapid"
	"verifh/ev"
	"verifh/gen"
)

// C15 - text without '<' and without '=' is never reported as XSS.

func init() { registry["C15"] = c15Oracle }

var c15Signals = []string{"on", "javascript", "vbscript", "data:", "view-source", "style", "href", "src", "xmlns", "'", "\"", "`", ">", "&#", "script", "doctype", "[if", "entity", "import", "xml"}

func c15Oracle(c ev.Case) Res {
	s := c.In
	if strings.ContainsAny(s, "<=") {
		return Res{Class: "outside_domain"}
	}
	if lib.IsXSS(s) {
		ctxs := ""
		for ctx := 0; ctx < 5; ctx++ {
			if lib.VIsXSSCtx(s, ctx) {
				ctxs += " " + ctxNames[ctx]
			}
		}
		return fail("input without '<' and '=' reported as XSS (contexts:%s)", ctxs)
	}
	ls := gen.LowerASCII(s)
	for _, sig := range c15Signals {
		if strings.Contains(ls, sig) {
			return Res{NT: true, Class: "near_miss"}
		}
	}
	return Res{Class: "plain"}
}

// strip removes the two bytes by construction (replacement, not filtering of cases)
var c15Strip = strings.NewReplacer("<", ">", "=", "-")
var c15Drop = strings.NewReplacer("<", "", "=", "")

func TestC15(t *testing.T) {
	c := NewCheck(t, "C15", "cases are byte strings over bytes minus {'<','='}: exhaustive over the HTML alphabet minus the two bytes, markup atoms / XSS grammar vectors / corpus inputs with the two bytes deleted or replaced by '>' and '-' (by construction, nothing is filtered), rapid fragment grammar likewise; oracle IsXSS == false; non-trivial = contains an on* word, a scheme, a quote, '>', '&#' or a markup keyword (would be a vector with the two bytes restored)")
	c.rec.Assume = []string{}
	defer c.Finish()
	judge := func(w *Worker, s string) { w.Judge(ev.Case{Kind: "no_lt_eq", In: s}) }

	var alpha []string
	for _, a := range gen.AlphaHTML {
		if a != "<" && a != "=" {
			alpha = append(alpha, a)
		}
	}
	L := pick(4, 5)
	p := c.rec.NewPart("bytes_exhaustive", fmt.Sprintf("every string of length 0..%d over the %d-symbol HTML alphabet minus '<' and '='", L, len(alpha)), false, true, "")
	c.EnumSeq(p, alpha, "", 0, L, judge)
	var atoms []string
	seen := map[string]bool{}
	for _, a := range append(append([]string{}, htmlAtoms...), "onclick", "onerror ", "src", "javascript:alert(1)", " ", "\t", "alert(1)", "'x'", "\"x\"", "`x`", "1>", "a b", "on", "&#x6a;avascript:") {
		for _, v := range []string{c15Drop.Replace(a), c15Strip.Replace(a)} {
			if v != "" && !seen[v] {
				seen[v] = true
				atoms = append(atoms, v)
			}
		}
	}
	La := pick(3, 4)
	p = c.rec.NewPart("atoms_exhaustive", fmt.Sprintf("every concatenation of 1..%d of %d markup atoms with the two bytes deleted / replaced", La, len(atoms)), false, true, "")
	c.EnumSeq(p, atoms, "", 1, La, judge)
	vec := xssVectors()
	p = c.rec.NewPart("vector_near_misses", "every XSS grammar vector and corpus input with '<' and '=' deleted, and with them replaced by '>' and '-'", false, true, "")
	src := append(append([]string{}, vec...), corp().HTML...)
	c.ParRange(p, int64(len(src)), func(w *Worker, i int64) {
		judge(w, c15Drop.Replace(src[i]))
		judge(w, c15Strip.Replace(src[i]))
		judge(w, strings.NewReplacer("<", " ", "=", " ").Replace(src[i]))
		judge(w, strings.NewReplacer("<", "\x00", "=", ":").Replace(src[i]))
	})

	hb := htmlBoundaryInputs()
	p = c.rec.NewPart("boundary_near_misses", "length-, count- and code-point boundary inputs (see C07) with '<' and '=' deleted / replaced; alias runes whose low byte is '=' or '<' after attribute names", false, true, "")
	c.ParRange(p, int64(len(hb)), func(w *Worker, i int64) {
		judge(w, c15Drop.Replace(hb[i]))
		judge(w, c15Strip.Replace(hb[i]))
	})
	var al []string
	for _, r := range gen.RuneAliases {
		for _, nm := range []string{"onclick", "onerror", "href", "style", "src", "xmlns"} {
			for _, sep := range []string{" ", "", "\x00", "\t "} {
				al = append(al, nm+sep+r+"javascript:alert(1)", "x` "+nm+sep+r+"javascript:void(0)", "it's the "+nm+sep+r+"ubomir mentioned", "' "+nm+sep+r+" '", nm+sep+r)
			}
		}
	}
	p = c.rec.NewPart("alias_rune_near_misses", "black attribute name + separator + multi-byte character whose code point truncates to a structural byte + value", false, true, "")
	c.ParRange(p, int64(len(al)), func(w *Worker, i int64) { judge(w, al[i]) })

	var cf []string
	for i, v := range vec {
		if i%9 == 0 {
			for k := 0; k < 4; k++ {
				cf = append(cf, gen.Confuse(v, k))
			}
			cf = append(cf, gen.Fullwidth(c15Drop.Replace(v)), gen.Confuse(gen.Fullwidth(v), 0))
		}
	}
	for _, t := range []string{"\u898b\u51fa\u3057\u306f\uff1cstyle\uff1e\u3067\u56f2\u307f\u307e\u3059", "\u304a\u3059\u3059\u3081 style\uff1d\u30b7\u30f3\u30d7\u30eb", "\uff1cscript\uff1ealert(1)\uff1c/script\uff1e", "a \uff1c b and onclick \uff1d c"} {
		cf = append(cf, t)
	}
	p = c.rec.NewPart("confusable_near_misses", "every 9th grammar vector with its structural bytes replaced by fullwidth / small-form / typographic look-alikes, and with fullwidth names", false, true, "")
	c.ParRange(p, int64(len(cf)), func(w *Worker, i int64) { judge(w, c15Strip.Replace(cf[i])) })

	g := gen.HTMLInput()
	p = c.rec.NewPart("rapid_fragments", "rapid: fragment grammar / mutated vector with the two bytes replaced by a drawn substitute", true, false, "")
	c.Rapid(p, 8, pick(100000, 1000000), func(rt *rapid.T, sh int) ev.Case {
		var s string
		if rapid.Bool().Draw(rt, "src") {
			s = g.Draw(rt, "s")
		} else {
			s = gen.Mutate(rt, rapid.SampledFrom(vec).Draw(rt, "vec"), gen.FragHTML)
		}
		a := rapid.SampledFrom([]string{"", ">", " ", "\x00", "&#60;", "/", "'"}).Draw(rt, "lt")
		b := rapid.SampledFrom([]string{"", "-", " ", ":", "&#61;", "\x00", "\""}).Draw(rt, "eq")
		return ev.Case{Kind: "no_lt_eq", In: strings.NewReplacer("<", a, "=", b).Replace(s)}
	})
	p = c.rec.NewPart("rapid_bytes", "rapid: arbitrary bytes with '<' mapped to '>' and '=' to '-'", true, false, "")
	bg := gen.Bytes(40)
	c.Rapid(p, 4, pick(80000, 800000), func(rt *rapid.T, sh int) ev.Case {
		return ev.Case{Kind: "no_lt_eq", In: c15Strip.Replace(bg.Draw(rt, "b"))}
	})
	c.rec.Require("near_miss", "plain")
}
