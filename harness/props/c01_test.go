package props

import (
	"fmt"
	"strings"
	"testing"

	lib "github.com/corazawaf/libinjection-go"
	"pgregory.net/rapid"
	"verifh/ev"
	"verifh/gen"
)

// C01 - IsSQLi is total: it returns for every byte string, never panics.
// Oracle: the call returns (panic -> violation via recover in safe(); hang -> watchdog).

func init() { registry["C01"] = c01Oracle }

const sqlLookaheadBytes = "'\"`\\$-/*!.0123456789eExXbBqQnNuU&|<>=:@#[(;"

func c01Oracle(c ev.Case) Res {
	if c.Kind == "stack" {
		ok, msg := runStackChild(c.In, c.N, 2)
		if !ok {
			return fail("unit %q repeated to %d bytes: %s", c.In, c.N, msg)
		}
		return Res{NT: true, Class: "stack_probe"}
	}
	s := c.In
	if c.Kind == "long" {
		s = strings.Repeat(c.In, c.N/max(1, len(c.In))) + c.In2
	}
	b, fp := lib.IsSQLi(s)
	if b == (fp == "") {
		// not part of totality, but a free sanity check of the return pair
		return fail("IsSQLi returned (%v,%q)", b, fp)
	}
	nt := false
	if len(s) > 0 {
		last := s[len(s)-1]
		nt = strings.IndexByte(sqlLookaheadBytes, last) >= 0 || strings.IndexByte(s, 0) >= 0
		if !nt {
			for i := 0; i < len(s); i++ {
				if s[i] >= 0x80 {
					nt = true
					break
				}
			}
		}
	}
	cls := "returns_false"
	if b {
		cls = "returns_true"
	}
	return Res{NT: nt, Class: cls}
}

func max(a, b int) int {
	if a > b {
		return a
	}
	return b
}

func c01Case(s string) ev.Case { return ev.Case{Kind: "call", In: s} }

// hostile constants: construct openers that end the input
var sqlHostile = []string{"q'(", "q'", "nq'", "nq'(", "$a$", "$a", "$", "$$", "0x", "0b", "1e+", "1e", "1.", "/*", "/*!", "/", "@@", "@", "@`", "@'", "x'", "b'", "u&'", "u&", "n'", "e'", "\\N", "\\", "\xa0", "\x00", "--", "-", "#", "`", "'", "\"", "[", "<=", "<", ":", "::", "!", "!!", "|", "&", "1f", "1d", ".", "{", "{ ``", "(", "1 union", "1c", "1 /*", "1--", "1#", "1 #", "sos"}

func TestC01(t *testing.T) {
	c := NewCheck(t, "C01", "cases are byte strings passed to IsSQLi; the oracle is that the call returns (panic caught by recover; no return within 60 s reported by a watchdog); enumerated parts duplicate-free, random parts deduplicated by FNV-64; non-trivial = the last byte is a dispatch byte with look-ahead (quote, $, -, /, digit, literal-prefix letter, operator start, @, #, [) or the input contains NUL or a byte >= 0x80")
	c.rec.Assume = []string{"termination is decided by a 60 s watchdog (normal cost: microseconds) plus the step cap of C16, not by a termination argument"}
	defer c.Finish()
	judge := func(w *Worker, s string) { w.Judge(c01Case(s)) }

	// stack probes: a scanner or folder that handles the next token by calling itself needs one frame per token
	var probes []ev.Case
	seenUnit := map[string]bool{}
	addUnit := func(u string) {
		if !seenUnit[u] {
			seenUnit[u] = true
			probes = append(probes, ev.Case{Kind: "stack", In: u, N: 256 << 10})
		}
	}
	for _, a := range gen.AlphaSQL {
		addUnit(a)
	}
	for _, h := range sqlHostile {
		addUnit(h)
		addUnit(h + " ")
	}
	for _, a := range tokenAtoms {
		for _, b := range tokenAtoms {
			addUnit(a + " " + b + " ")
			if thorough() {
				addUnit(a + b)
			}
		}
	}
	for _, u := range []string{"'a' ", "'a'", "\"a\"", "`a`", "/**/", "/*a*/ ", "--\n", "#\n", "1,", "(1)", "((", "))", "()", "a.b.", "@a ", "@@a ", "$a$b$a$", "$$a$$", "q'(a)'", "x'41'", "n'a'", "u&'a'", "1e1 ", "0x1 ", "1.1.", "{a}", "[a]", "a;b;", "- - ", "+ + ", "not not ", "! ! ", "~ ~ ", "select 1 union ", "1 or 1=1 or ", "(select ", "case when ", "'a'||", "'a' 'b' ", "a b c ", "\\N ", "\xa0", "\x00 ", "1;", ";;", "/*!", "/*! */", "*/"} {
		addUnit(u)
	}
	p := c.rec.NewPart("stack_probes", fmt.Sprintf("%d repetition inputs (alphabet symbols, construct openers, complete literals, every ordered pair of token atoms) at 256 kB in child processes with a 2 MB stack limit", len(probes)), false, true, "")
	c.ParRange(p, int64(len(probes)), func(w *Worker, i int64) { w.JudgeSlow(probes[i]) })
	L := pick(4, 5)
	p = c.rec.NewPart("bytes_exhaustive", fmt.Sprintf("every string of length 0..%d over the %d-symbol SQL alphabet", L, len(gen.AlphaSQL)), false, true, "")
	c.EnumSeq(p, gen.AlphaSQL, "", 0, L, judge)
	Lc := pick(5, 6)
	p = c.rec.NewPart("bytes_core_exhaustive", fmt.Sprintf("every string of length %d..%d over the %d-symbol core alphabet", L+1, Lc, len(gen.CoreSQL)), false, true, "")
	c.EnumSeq(p, gen.CoreSQL, "", L+1, Lc, judge)
	p = c.rec.NewPart("tokens_exhaustive", "every space-joined sequence of 1..4 token atoms (whitelist and folding index expressions)", false, true, "")
	c.EnumSeq(p, tokenAtoms, " ", 1, 4, judge)

	p = c.rec.NewPart("five_token_exhaustive", "every space-joined sequence of exactly 6 atoms over the five-token-special alphabet (look-ahead token handling of the folder)", false, true, "")
	c.EnumSeq(p, fiveAtoms, " ", 6, pick(6, 7), judge)

	bnd := sqlBoundaryInputs()
	p = c.rec.NewPart("boundary_inputs", "slot-, clip- and length-boundary inputs (see C06)", false, true, "")
	c.ParRange(p, int64(len(bnd)), func(w *Worker, i int64) { judge(w, bnd[i]) })

	// truncations: every construct cut at every offset, after 12 contexts, short and long bodies
	var tr []string
	tr = append(tr, sqlTruncationInputs()...)
	long := strings.Repeat("a", 45)
	for _, h := range sqlHostile {
		for _, ctx := range []string{"", " ", "1 ", "'", "\"", "a", "(", "1,", "\\", "@", "-", "/*", "1 union select ", "x' or "} {
			tr = append(tr, ctx+h, ctx+h+long, ctx+long+h, ctx+h+" ", ctx+h+h, h+ctx)
		}
	}
	for _, a := range attackInputs() {
		if len(a) < 40 {
			for k := 1; k < len(a); k++ {
				tr = append(tr, a[:k])
			}
		}
	}
	p = c.rec.NewPart("truncations", "every prefix of every literal form / corpus input / short attack-grammar member; hostile construct openers at end of input behind 14 contexts with short and 45-byte bodies", false, false, "")
	c.ParRange(p, int64(len(tr)), func(w *Worker, i int64) { judge(w, tr[i]) })

	p = c.rec.NewPart("source_bytes", fmt.Sprintf("bytes the SQLi source files write as literals and the byte-class alphabet lacks, inserted at every position of every string of 0..%d core symbols, and behind every hostile construct opener at the end of the input", 3), false, true, "")
	c.srcByteInputs(p, extraBytes(srcDict().SQLBytes, gen.AlphaSQL), gen.CoreSQL, 3, sqlHostile, judge)
	p = c.rec.NewPart("source_dictionary", fmt.Sprintf("%d lead constructs (closed and open literals of every kind, numbers, words, punctuation, comments) x blank? x W x blank? x every tail of 0..3 symbols over %q, for each word W (as written, upper, lower) that occurs as a literal in the SQLi source files and is not a table key", len(sqlDictLeads), sqlDictTail), false, true, "")
	c.sqlDictInputs(p, 3, judge)
	p = c.rec.NewPart("rapid_fragments", "rapid over the SQL fragment grammar", true, false, "")
	g := gen.SQLInput()
	c.Rapid(p, 8, pick(60000, 800000), func(rt *rapid.T, sh int) ev.Case { return c01Case(g.Draw(rt, "in")) })
	p = c.rec.NewPart("rapid_bytes", "rapid: arbitrary byte strings up to 48 bytes", true, false, "")
	bg := gen.Bytes(48)
	c.Rapid(p, 4, pick(60000, 800000), func(rt *rapid.T, sh int) ev.Case { return c01Case(bg.Draw(rt, "in")) })
	p = c.rec.NewPart("rapid_long_inputs", "rapid: fragment repeated to 4..64 kB plus a hostile tail", true, false, "")
	c.Rapid(p, 4, pick(150, 3000), func(rt *rapid.T, sh int) ev.Case {
		u := rapid.SampledFrom(gen.FragSQL).Draw(rt, "unit") + rapid.SampledFrom(gen.FragSQL).Draw(rt, "unit2")
		return ev.Case{Kind: "long", In: u, N: rapid.IntRange(4<<10, 64<<10).Draw(rt, "n"), In2: rapid.SampledFrom(sqlHostile).Draw(rt, "tail")}
	})
	p = c.rec.NewPart("rapid_corpus_mutation", "rapid: repository fixtures with 1-4 edits", true, false, "")
	c.Rapid(p, 4, pick(15000, 300000), func(rt *rapid.T, sh int) ev.Case {
		return c01Case(gen.Mutate(rt, rapid.SampledFrom(corp().SQL).Draw(rt, "base"), gen.FragSQL))
	})
	c.rec.Require("returns_true", "returns_false", "stack_probe")
}
