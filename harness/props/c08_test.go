package props

import (
	"regexp"
	"strings"
	"testing"

	lib "github.com/corazawaf/libinjection-go"
	"pgregory.net/rapid"
	"verifh/ev"
	"verifh/gen"
)

// C08 - verdict and fingerprint returned by IsSQLi are mutually consistent.

func init() { registry["C08"] = c08Oracle }

var fpShape = regexp.MustCompile(`^[kUBEtfn1vso&cA(){}.,:;T?X\\]{1,5}$`)

func c08Oracle(c ev.Case) Res {
	s := c.In
	b, f := lib.IsSQLi(s)
	if !b {
		if f != "" {
			return fail("verdict false but fingerprint %q is not empty", f)
		}
		// non-trivial false case: some mode produced a blacklisted fingerprint that the whitelist rejected
		for _, m := range passModes {
			_, _, bl, vd, _ := lib.VFingerprint(s, m)
			if bl && !vd {
				return Res{NT: true, Class: "false_whitelisted"}
			}
		}
		return Res{Class: "false"}
	}
	if f == "" {
		return fail("verdict true with an empty fingerprint")
	}
	if !fpShape.MatchString(f) {
		return fail("fingerprint %q is not 1..5 token-class characters", f)
	}
	if i := strings.IndexByte(f, 'c'); i >= 0 && i != len(f)-1 {
		return fail("fingerprint %q carries the comment class before the last position", f)
	}
	if kwTab()["0"+gen.UpperASCII(f)] != 'F' {
		return fail("fingerprint %q is not in the shipped blacklist", f)
	}
	found := false
	for _, m := range passModes {
		_, fp, _, vd, _ := lib.VFingerprint(s, m)
		if fp == f && vd {
			found = true
			break
		}
	}
	if !found {
		return fail("fingerprint %q is not the fingerprint of the input in any parsing context that judges it SQLi", f)
	}
	return Res{NT: true, Class: "true_len" + string(rune('0'+len(f)))}
}

func c08Case(s string) ev.Case { return ev.Case{Kind: "consistency", In: s} }

func TestC08(t *testing.T) {
	c := NewCheck(t, "C08", "cases are byte strings; (b,f)=IsSQLi(s) must satisfy: !b => f empty; b => f is 1..5 class characters, 'c' only last, \"0\"+upper(f) is a blacklist key, and f is the fingerprint (with a true verdict) of s in at least one of the five parsing contexts evaluated on fresh state; non-trivial = verdict true, or some context produced a blacklisted fingerprint that the whitelist rejected; enumerations duplicate-free, random parts deduplicated by FNV-64")
	c.rec.Assume = []string{"per-context fingerprints and the keyword table are read through the accessors"}
	defer c.Finish()
	judge := func(w *Worker, s string) { w.Judge(c08Case(s)) }

	p := c.rec.NewPart("tokens_exhaustive", "every space-joined sequence of 1..4 token atoms", false, true, "")
	c.EnumSeq(p, tokenAtoms, " ", 1, pick(4, 4), judge)
	if thorough() {
		p = c.rec.NewPart("tokens_core_exhaustive", "every space-joined sequence of 5 core atoms (24) and of 6 over the first 16", false, true, "")
		c.EnumSeq(p, tokenAtomsThorough, " ", 5, 5, judge)
		c.EnumSeq(p, tokenAtomsThorough[:16], " ", 6, 6, judge)
	}
	p = c.rec.NewPart("bytes_exhaustive", "every string of length 0..3 over the SQL byte-class alphabet", false, true, "")
	c.EnumSeq(p, gen.AlphaSQL, "", 0, 3, judge)

	fpr, _, _ := fpRealisations()
	p = c.rec.NewPart("fingerprint_realisations", "one or two inputs per realisable blacklist key (see C06)", false, true, "")
	c.ParRange(p, int64(len(fpr)), func(w *Worker, i int64) { judge(w, fpr[i]) })
	bnd := sqlBoundaryInputs()
	p = c.rec.NewPart("boundary_inputs", "slot-, clip- and length-boundary inputs (see C06)", false, true, "")
	c.ParRange(p, int64(len(bnd)), func(w *Worker, i int64) { judge(w, bnd[i]) })
	att := attackInputs()
	p = c.rec.NewPart("attack_grammar", "members of the calibrated attack grammar (true branch, fingerprints of length 1..5)", false, true, "")
	c.ParRange(p, int64(len(att)), func(w *Worker, i int64) { judge(w, att[i]) })
	tr := sqlTruncationInputs()
	p = c.rec.NewPart("truncations_and_corpus", "prefixes of literal forms and corpus inputs", false, true, "")
	c.ParRange(p, int64(len(tr)), func(w *Worker, i int64) { judge(w, tr[i]) })

	p = c.rec.NewPart("rapid_fragments", "rapid over the SQL fragment grammar (incl. inputs with >= 6 tokens)", true, false, "")
	g := gen.SQLInput()
	c.Rapid(p, 8, pick(100000, 900000), func(rt *rapid.T, sh int) ev.Case { return c08Case(g.Draw(rt, "in")) })
	p = c.rec.NewPart("rapid_attack_mutants", "rapid: attack grammar members and repository fixtures with 1-4 edits", true, false, "")
	c.Rapid(p, 8, pick(60000, 600000), func(rt *rapid.T, sh int) ev.Case {
		base := rapid.SampledFrom(att).Draw(rt, "base")
		if rapid.IntRange(0, 2).Draw(rt, "src") == 0 {
			base = rapid.SampledFrom(corp().SQL).Draw(rt, "fixture")
		}
		return c08Case(gen.Mutate(rt, base, gen.FragSQL))
	})
	c.rec.Require("true_len1", "true_len2", "true_len3", "true_len4", "true_len5", "false_whitelisted", "false")
}
