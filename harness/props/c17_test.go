package props

import (
	"fmt"
	"strings"
	"testing"

	lib "github.com/corazawaf/libinjection-go"
	"pgregory.net/rapid"
	"verifh/ev"
	"verifh/gen"
)

// C17 - HTML tokens stay inside the input, in order; constructs end at the first terminator.
// Independent of the reference model: the terminator finders below are written from the
// property's statement.

func init() { registry["C17"] = c17Oracle }

type h5Construct struct {
	name   string
	opener string
	ctx    int // start context (0 = data state); 2,3,4 = inside a single-/double-/back-quoted value
	typ    int // token type of the construct
	tokIdx int // index of the construct's token in the stream of opener+body
	offAdj int // token offset = len(opener) + offAdj
	alpha  []string
	skip   func(body string) bool // bodies that select a different construct
	find   func(b string) (start, after int)
}

func idx(b, sep string) (int, int) {
	i := strings.Index(b, sep)
	if i < 0 {
		return -1, -1
	}
	return i, i + len(sep)
}

// comment terminator: '-' NUL* ('-'|'!') '>'
func findCommentEnd(b string) (int, int) {
	for i := 0; i < len(b); i++ {
		if b[i] != '-' {
			continue
		}
		j := i + 1
		for j < len(b) && b[j] == 0 {
			j++
		}
		if j < len(b) && (b[j] == '-' || b[j] == '!') && j+1 < len(b) && b[j+1] == '>' {
			return i, j + 2
		}
	}
	return -1, -1
}

const (
	h5Text    = 0
	h5AttrVal = 7
	h5Comment = 8
	h5DocType = 9
)

var h5Constructs = []h5Construct{
	{name: "pct_comment", opener: "<%", typ: h5Comment, alpha: []string{"%", ">", "\x00", "<", "a", "-"}, find: func(b string) (int, int) { return idx(b, "%>") }},
	{name: "cdata", opener: "<![CDATA[", typ: h5Text, alpha: []string{"]", ">", "\x00", "<", "a", "["}, find: func(b string) (int, int) { return idx(b, "]]>") }},
	{name: "comment", opener: "<!--", typ: h5Comment, alpha: []string{"-", "!", ">", "\x00", "<", "a"}, find: findCommentEnd},
	{name: "bang_bogus", opener: "<!", typ: h5Comment, alpha: []string{">", "-", "\x00", "<", "a", "["},
		skip: func(b string) bool {
			return strings.HasPrefix(b, "--") || strings.HasPrefix(b, "[CDATA[") || (len(b) >= 7 && strings.EqualFold(b[:7], "doctype"))
		}, find: func(b string) (int, int) { return idx(b, ">") }},
	{name: "pi_bogus", opener: "<?", typ: h5Comment, alpha: []string{">", "?", "\x00", "<", "a", "-"}, find: func(b string) (int, int) { return idx(b, ">") }},
	{name: "doctype", opener: "<!DocType", typ: h5DocType, offAdj: -7, alpha: []string{">", " ", "\x00", "<", "a", "'"}, find: func(b string) (int, int) { return idx(b, ">") }},
	{name: "single_quoted_value", opener: "<a b='", typ: h5AttrVal, tokIdx: 2, alpha: []string{"'", "\"", ">", "\x00", "<", "a", " "}, find: func(b string) (int, int) { return idx(b, "'") }},
	{name: "double_quoted_value", opener: "<a b=\"", typ: h5AttrVal, tokIdx: 2, alpha: []string{"\"", "'", ">", "\x00", "<", "a", " "}, find: func(b string) (int, int) { return idx(b, "\"") }},
	{name: "back_quoted_value", opener: "<a b=`", typ: h5AttrVal, tokIdx: 2, alpha: []string{"`", "'", ">", "\x00", "<", "a", " "}, find: func(b string) (int, int) { return idx(b, "`") }},
	// the same three value forms entered through the start context (virtual opening quote at offset 0)
	{name: "single_quoted_context", ctx: 2, typ: h5AttrVal, alpha: []string{"'", "\"", ">", "\x00", "<", "a", " "}, find: func(b string) (int, int) { return idx(b, "'") }},
	{name: "double_quoted_context", ctx: 3, typ: h5AttrVal, alpha: []string{"\"", "'", ">", "\x00", "<", "a", " "}, find: func(b string) (int, int) { return idx(b, "\"") }},
	{name: "back_quoted_context", ctx: 4, typ: h5AttrVal, alpha: []string{"`", "'", ">", "\x00", "<", "a", " "}, find: func(b string) (int, int) { return idx(b, "`") }},
}

func sameShifted(a []lib.VH5Token, b []lib.VH5Token, shift int) bool {
	if len(a) != len(b) {
		return false
	}
	for i := range a {
		if a[i].Type != b[i].Type || a[i].Len != b[i].Len || a[i].Off != b[i].Off+shift {
			return false
		}
	}
	return true
}

func c17Oracle(c ev.Case) Res {
	switch c.Kind {
	case "inv":
		s := c.In
		res := Res{}
		for ctx := 0; ctx < 5; ctx++ {
			toks := lib.VH5Tokens(s, ctx, len(s)+3)
			if len(toks) > len(s)+1 {
				return fail("ctx %s: %d tokens from %d bytes", ctxNames[ctx], len(toks), len(s))
			}
			end := 0
			for i, t := range toks {
				if t.Off < 0 || t.Len < 0 || t.Off+t.Len > len(s) {
					return fail("ctx %s: token %d span [%d,%d) outside the input (%d bytes): %s", ctxNames[ctx], i, t.Off, t.Off+t.Len, len(s), showH5(toks))
				}
				if t.Off < end {
					return fail("ctx %s: token %d at %d overlaps the previous one ending at %d: %s", ctxNames[ctx], i, t.Off, end, showH5(toks))
				}
				if t.Type < 0 || t.Type > 9 {
					return fail("ctx %s: token %d has unknown type %d", ctxNames[ctx], i, t.Type)
				}
				end = t.Off + t.Len
			}
			if len(toks) >= 2 {
				res.NT = true
			}
		}
		return res
	case "term":
		k := c.N & 0xff
		if k >= len(h5Constructs) {
			return Res{}
		}
		hc := h5Constructs[k]
		body := c.In
		if hc.skip != nil && hc.skip(body) {
			return Res{Class: "skipped_other_construct"}
		}
		pre := c.In2 // text prefix without '<'
		if hc.ctx != 0 {
			pre = "" // a start context applies to offset 0 only
			if body == "" {
				return Res{}
			}
		}
		s := pre + hc.opener + body
		toks := lib.VH5Tokens(s, hc.ctx, len(s)+3)
		ti := hc.tokIdx
		if pre != "" {
			ti++
		}
		if len(toks) <= ti {
			return fail("%s: construct token missing: %s", hc.name, showH5(toks))
		}
		start, after := hc.find(body)
		wantLen := len(body)
		if start >= 0 {
			wantLen = start
		}
		base := len(pre) + len(hc.opener)
		wantOff := base + hc.offAdj
		wantLen -= hc.offAdj
		t := toks[ti]
		if t.Type != hc.typ || t.Off != wantOff || t.Len != wantLen {
			return fail("%s: construct token is (type %d @%d +%d), expected (type %d @%d +%d) [first terminator at body offset %d]; stream %s", hc.name, t.Type, t.Off, t.Len, hc.typ, wantOff, wantLen, start, showH5(toks))
		}
		rest := toks[ti+1:]
		if start < 0 {
			if len(rest) != 0 {
				return fail("%s: unterminated construct must run to end of input, but tokens follow: %s", hc.name, showH5(toks))
			}
		} else if hc.typ == h5AttrVal {
			// resumption: what follows the closing quote does not depend on the value's content
			ref := lib.VH5Tokens(pre+hc.opener+body[start:], hc.ctx, len(s)+3)
			if len(ref) <= ti || !sameShifted(rest, ref[ti+1:], start) {
				return fail("%s: tokens after the closing quote differ from those with an empty value: %s vs %s", hc.name, showH5(toks), showH5(ref))
			}
		} else {
			// resumption: the data state continues right after the terminator
			ref := lib.VH5Tokens(body[after:], 0, len(s)+3)
			if !sameShifted(rest, ref, base+after) {
				return fail("%s: tokens after the terminator %s differ from tokenising the remainder %q: %s", hc.name, showH5(rest), body[after:], showH5(ref))
			}
		}
		// non-trivial: at least two candidate positions (a full or partial terminator twice)
		cands := 0
		for _, piece := range hc.alpha[:2] {
			cands += strings.Count(body, piece)
		}
		return Res{NT: cands >= 2, Class: "construct_" + hc.name}
	}
	return Res{}
}

func TestC17(t *testing.T) {
	c := NewCheck(t, "C17", "kind inv: byte strings tokenised from all 5 start contexts (spans inside the input, ordered, disjoint, count <= |s|+1, known type); kind term: opener x body (optionally behind a '<'-free text prefix): the construct token has the documented offset and length = index of the first terminator found by a naive matcher (|body| if none), and the tokens after it equal those of the remainder tokenised in the data state (quoted values: equal those obtained with an empty value), shifted; enumerated parts duplicate-free; non-trivial = >= 2 tokens (inv) / body holds >= 2 terminator-piece candidates (term)")
	c.rec.Assume = []string{"token stream read through the build-tagged accessor VH5Tokens"}
	defer c.Finish()

	L := pick(4, 5)
	p := c.rec.NewPart("inv_bytes_exhaustive", fmt.Sprintf("invariants on every string of length 0..%d over the %d-symbol HTML alphabet", L, len(gen.AlphaHTML)), false, true, "")
	c.EnumSeq(p, gen.AlphaHTML, "", 0, L, func(w *Worker, s string) { w.Judge(ev.Case{Kind: "inv", In: s}) })
	p = c.rec.NewPart("inv_atoms_exhaustive", "invariants on every concatenation of 1..3 markup atoms", false, true, "")
	c.EnumSeq(p, htmlAtoms, "", 1, 3, func(w *Worker, s string) { w.Judge(ev.Case{Kind: "inv", In: s}) })

	Lb := pick(8, 9)
	for k, hc := range h5Constructs {
		k := k
		p = c.rec.NewPart("term_"+hc.name, fmt.Sprintf("opener %q + every body of length 0..%d over the decoy alphabet %q, alone and behind the text prefix \"x>\"", hc.opener, Lb, hc.alpha), false, true, "")
		c.EnumSeq(p, hc.alpha, "", 0, Lb, func(w *Worker, s string) {
			w.Judge(ev.Case{Kind: "term", N: k, In: s})
			w.Judge(ev.Case{Kind: "term", N: k, In: s, In2: "x>"})
		})
		c.rec.Require("construct_" + hc.name)
	}

	// <! + case variants of [CDATA[ are bogus comments ending at the first '>' (only the exact spelling opens a CDATA section)
	var cdv []string
	for m := 1; m < 32; m++ {
		b := []byte("[cdata[")
		for i, j := 0, 0; i < len(b); i++ {
			if b[i] >= 'a' && b[i] <= 'z' {
				if m>>j&1 == 1 {
					b[i] -= 32
				}
				j++
			}
		}
		if string(b) != "[CDATA[" {
			cdv = append(cdv, string(b))
		}
	}
	p = c.rec.NewPart("term_bang_cdata_case_variants", "<! + each of the 30 non-canonical case variants of [CDATA[ + every tail of length 0..4 over {>, ], ]]>, a, <}", false, true, "")
	bangIdx := 3
	c.EnumSeq(p, []string{">", "]", "]]>", "a", "<"}, "", 0, 4, func(w *Worker, tail string) {
		for _, v := range cdv {
			w.Judge(ev.Case{Kind: "term", N: bangIdx, In: v + tail})
		}
	})

	// a decoy body, then >= 256 further bytes, then each plain terminator form: a scanner with a separate
	// path for long remainders must still stop at the FIRST terminator
	for k, hc := range h5Constructs {
		k := k
		terms := []string{">", "%>", "]]>", "-->", "-!>", "--!>", "'", "\"", "`"}
		p = c.rec.NewPart("term_long_tail_"+hc.name, "every body of length 0..4 over the decoy alphabet + 300 filler bytes + each terminator form + tail", false, true, "")
		alpha := hc.alpha
		c.EnumSeq(p, alpha, "", 0, 4, func(w *Worker, s string) {
			for _, tm := range terms {
				w.Judge(ev.Case{Kind: "term", N: k, In: s + strings.Repeat("a", 300) + tm + "b<i>"})
			}
		})
	}
	// the terminator pieces of all the other constructs inside each construct: a scanner that starts to honour
	// another construct's bracket (quotes, [ ], --, %>, ?>) inside this one ends the token somewhere else
	cross := []string{">", "]", "[", "-", "%", "?", "!", "'", "\"", "`", "<", "a", " ", "/", "="}
	Lx := pick(4, 5)
	for k, hc := range h5Constructs {
		k := k
		p = c.rec.NewPart("term_cross_"+hc.name, fmt.Sprintf("every body of length 0..%d over the union of the structural bytes of all constructs %q", Lx, cross), false, true, "")
		c.EnumSeq(p, cross, "", 0, Lx, func(w *Worker, s string) {
			w.Judge(ev.Case{Kind: "term", N: k, In: s})
		})
	}
	// the same with paired brackets pre-formed: [..]> (..)> {..}> "..."> '...'> <..>> around a '>' decoy
	var brk []string
	for _, b := range [][2]string{{"[", "]"}, {"(", ")"}, {"{", "}"}, {"\"", "\""}, {"'", "'"}, {"`", "`"}, {"<", ">"}, {"<!--", "-->"}, {"<![CDATA[", "]]>"}, {"<?", "?>"}, {"<%", "%>"}, {"/*", "*/"}} {
		for _, in := range []string{">", "a>b", "<!ENTITY x \"y\">", "%>", "]]>", "-->", "'", "\""} {
			for _, pre := range []string{"", " ", " svg ", "a"} {
				brk = append(brk, pre+b[0]+in+b[1]+">x", pre+b[0]+in+b[1]+"x", pre+b[0]+in+b[1]+b[1]+">")
			}
		}
	}
	for k := range h5Constructs {
		k := k
		p = c.rec.NewPart("term_brackets_"+h5Constructs[k].name, fmt.Sprintf("%d bodies in which a decoy terminator sits inside a pair of brackets, quotes or nested construct delimiters", len(brk)), false, true, "")
		c.ParRange(p, int64(len(brk)), func(w *Worker, i int64) { w.Judge(ev.Case{Kind: "term", N: k, In: brk[i]}) })
	}
	// words the tokenizer's own source compares the input with (source dictionary) inside every construct
	dw := dictWords(srcDict().HTML)
	for k, hc := range h5Constructs {
		k := k
		alpha := append([]string{}, hc.alpha...)
		for _, x := range []string{"\"", "'", " "} {
			dup := false
			for _, y := range alpha {
				dup = dup || x == y
			}
			if !dup {
				alpha = append(alpha, x)
			}
		}
		p = c.rec.NewPart("term_source_dictionary_"+hc.name, fmt.Sprintf("every body of 1..4 symbols over {W} + %q and of 5 symbols over {W} + the first three decoys + the quotes, that contains W, for each of the %d words W (as written, upper, lower) that occur as literals in the tokenizer's source files and are not list entries", alpha, len(dw)), false, true, "")
		judge := func(w *Worker, s string) {
			w.Judge(ev.Case{Kind: "term", N: k, In: s})
			w.Judge(ev.Case{Kind: "inv", In: hc.opener + s})
		}
		c.dictSeq(p, dw, alpha, 1, 4, judge)
		c.dictSeq(p, dw, append(append([]string{}, hc.alpha[:3]...), "\"", "'"), 5, pick(5, 6), judge)
	}
	hb := htmlBoundaryInputs()
	p = c.rec.NewPart("inv_boundary_inputs", "invariants on the length-, count- and code-point boundary inputs (see C07), incl. inputs beyond 4 MB", false, true, "")
	c.ParRange(p, int64(len(hb)), func(w *Worker, i int64) { w.Judge(ev.Case{Kind: "inv", In: hb[i]}) })

	p = c.rec.NewPart("rapid_term_long_bodies", "rapid: construct x body of fragments (up to ~150 bytes) x text prefix", true, false, "")
	g := gen.HTMLInput()
	c.Rapid(p, 8, pick(60000, 700000), func(rt *rapid.T, sh int) ev.Case {
		k := rapid.IntRange(0, len(h5Constructs)-1).Draw(rt, "construct")
		body := g.Draw(rt, "body")
		pre := strings.ReplaceAll(rapid.SampledFrom([]string{"", "", "x", "a b", ">", "'\">"}).Draw(rt, "pre"), "<", "")
		return ev.Case{Kind: "term", N: k, In: body, In2: pre}
	})
	p = c.rec.NewPart("rapid_inv", "rapid: invariants over the HTML fragment grammar and mutated corpus", true, false, "")
	c.Rapid(p, 8, pick(60000, 700000), func(rt *rapid.T, sh int) ev.Case {
		if rapid.Bool().Draw(rt, "src") {
			return ev.Case{Kind: "inv", In: g.Draw(rt, "in")}
		}
		return ev.Case{Kind: "inv", In: gen.Mutate(rt, rapid.SampledFrom(corp().HTML).Draw(rt, "base"), gen.FragHTML)}
	})
}
