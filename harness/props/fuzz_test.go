package props

import (
	"fmt"
	"os"
	"path/filepath"
	"testing"

	"verifh/ev"
	"verifh/gen"
)

// Native coverage-guided fuzz targets (thorough tier only; Go's fuzzer cannot be
// seeded, the saved failing case is the reproducible unit). Each target decodes the
// bytes into a case of the property and runs the property's own oracle, so the
// semantic check - not just "does not crash" - is inside the target.

func fuzzProperty(f *testing.F, id string, seeds []string, build func(data []byte) (ev.Case, bool)) {
	for _, s := range seeds {
		f.Add([]byte(s))
	}
	o := registry[id]
	f.Fuzz(func(t *testing.T, data []byte) {
		if len(data) > 4096 {
			return
		}
		cs, ok := build(data)
		if !ok {
			return
		}
		r := safe(o, cs)
		if r.Err != "" {
			rec := ev.New(id, "thorough", seed, verifDir)
			p := rec.WriteReplay(cs, r.Err)
			line := fmt.Sprintf("FAILED-CASE property=%s kind=%s n=%d input=%q input2=%q : %s\nVIOLATION property=%s replay=%s\n", id, cs.Kind, cs.N, cs.In, cs.In2, r.Err, id, p)
			os.MkdirAll(filepath.Join(verifDir, ".bin"), 0o755)
			os.WriteFile(filepath.Join(verifDir, ".bin", "fuzzfail."+id), []byte(line), 0o644)
			t.Fatalf("%s", line)
		}
	})
}

func sqlSeeds() []string {
	s := append([]string{}, corp().SQL...)
	s = append(s, sqlHostile...)
	s = append(s, c10Witnesses...)
	s = append(s, c12Gated...)
	return s
}

func htmlSeeds() []string {
	s := append([]string{}, corp().HTML...)
	s = append(s, htmlHostile...)
	s = append(s, xssMarkup...)
	return s
}

func plain(kind string, dropFold bool) func([]byte) (ev.Case, bool) {
	return func(d []byte) (ev.Case, bool) {
		s := string(d)
		if dropFold && gen.HasUnicodeFold(s) {
			return ev.Case{}, false
		}
		return ev.Case{Kind: kind, In: s}, true
	}
}

func FuzzC01(f *testing.F) { fuzzProperty(f, "C01", sqlSeeds(), plain("call", false)) }
func FuzzC02(f *testing.F) { fuzzProperty(f, "C02", htmlSeeds(), plain("call", false)) }
func FuzzC06(f *testing.F) { fuzzProperty(f, "C06", sqlSeeds(), plain("diff", true)) }
func FuzzC07(f *testing.F) { fuzzProperty(f, "C07", htmlSeeds(), plain("diff", true)) }
func FuzzC08(f *testing.F) { fuzzProperty(f, "C08", sqlSeeds(), plain("consistency", false)) }
func FuzzC16(f *testing.F) { fuzzProperty(f, "C16", sqlSeeds(), plain("inv", false)) }
func FuzzC17(f *testing.F) { fuzzProperty(f, "C17", htmlSeeds(), plain("inv", false)) }

func FuzzC12(f *testing.F) {
	fuzzProperty(f, "C12", sqlSeeds(), func(d []byte) (ev.Case, bool) {
		if len(d) == 0 {
			return ev.Case{}, false
		}
		k := "cascade"
		if d[0]&1 == 1 {
			k = "embed"
		}
		return ev.Case{Kind: k, In: string(d[1:])}, true
	})
}

func FuzzC13(f *testing.F) {
	fuzzProperty(f, "C13", htmlSeeds(), plain("contexts", false))
}

func FuzzC15(f *testing.F) {
	fuzzProperty(f, "C15", htmlSeeds(), func(d []byte) (ev.Case, bool) {
		return ev.Case{Kind: "no_lt_eq", In: c15Strip.Replace(string(d))}, true
	})
}

// case-mask targets: first half of the data is the input, a trailing mask flips letters
func maskFromData(s string, ex []bool, mask []byte) string {
	b := []byte(s)
	k := 0
	for i := range b {
		if !gen.IsLetter(b[i]) || ex[i] {
			continue
		}
		if len(mask) > 0 && mask[(k/8)%len(mask)]>>(k%8)&1 == 1 {
			b[i] ^= 0x20
		}
		k++
	}
	return string(b)
}

func FuzzC10(f *testing.F) {
	fuzzProperty(f, "C10", sqlSeeds(), func(d []byte) (ev.Case, bool) {
		n := len(d) * 3 / 4
		s := string(d[:n])
		return ev.Case{Kind: "case", In: s, In2: maskFromData(s, sqliExempt(s), append([]byte{0x55}, d[n:]...))}, true
	})
}

func FuzzC11(f *testing.F) {
	fuzzProperty(f, "C11", htmlSeeds(), func(d []byte) (ev.Case, bool) {
		n := len(d) * 3 / 4
		s := string(d[:n])
		return ev.Case{Kind: "case", In: s, In2: maskFromData(s, xssExempt(s), append([]byte{0xAA}, d[n:]...))}, true
	})
}

func FuzzC18(f *testing.F) {
	seeds := []string{"\x00a'b", "\x01\\''", "\x05a\\\"b\"", "\x0a`a``b`", "\x10''''", "\x13\\\\'", "\x02' or 1=1"}
	fuzzProperty(f, "C18", seeds, func(d []byte) (ev.Case, bool) {
		if len(d) == 0 {
			return ev.Case{}, false
		}
		return ev.Case{Kind: "quote", N: int(d[0]) % len(strModes), In: string(d[1:])}, true
	})
}

func FuzzC19(f *testing.F) {
	seeds := []string{"&#106;", "&#x6a;", "&#X6A", "&#1048831;", "&#x1000ff;", "&#x100100", "&#0000065;", "&#", "&#x", "&", "&#9999999999;"}
	fuzzProperty(f, "C19", seeds, plain("decode", false))
}
