package props

import (
	"fmt"
	"sort"
	"strings"
	"testing"

	lib "github.com/corazawaf/libinjection-go"
	"pgregory.net/rapid"
	"verifh/ev"
	"verifh/gen"
)

// C10 - SQLi detection is insensitive to ASCII letter case (outside four exempt positions).

func init() { registry["C10"] = c10Oracle }

// sqliExempt marks, conservatively, the letters whose case SQL itself distinguishes:
// a letter directly after '\' (\N), every maximal letter run adjacent to '$' (dollar
// tags and their repetitions), every letter that occurs directly after some q' / Q'
// anywhere in s (q-quote delimiter letters), every letter inside an occurrence of
// sp_password (any case).
func sqliExempt(s string) []bool {
	ex := make([]bool, len(s))
	ls := gen.LowerASCII(s)
	for i := 1; i < len(s); i++ {
		if s[i-1] == '\\' {
			ex[i] = true
		}
	}
	for i := 0; i < len(s); {
		if !gen.IsLetter(s[i]) {
			i++
			continue
		}
		j := i
		for j < len(s) && gen.IsLetter(s[j]) {
			j++
		}
		if (i > 0 && s[i-1] == '$') || (j < len(s) && s[j] == '$') {
			for k := i; k < j; k++ {
				ex[k] = true
			}
		}
		i = j
	}
	var D [256]bool
	for i := 0; i+2 < len(s); i++ {
		if ls[i] == 'q' && s[i+1] == '\'' && gen.IsLetter(s[i+2]) {
			D[ls[i+2]] = true
		}
	}
	for i := range s {
		if gen.IsLetter(s[i]) && D[ls[i]] {
			ex[i] = true
		}
	}
	for off := 0; ; {
		k := strings.Index(ls[off:], "sp_password")
		if k < 0 {
			break
		}
		for j := 0; j < 11; j++ {
			ex[off+k+j] = true
		}
		off += k + 1
	}
	return ex
}

// sites: spellings whose case folding happens at a separate place of the algorithm
var c10Sites = []string{"union", "select", "union all", "not", "in (", "not in", "like (", "not like", "user(", "user_id(", "current_user(", "localtimestamp(", "database(", "password(", "into outfile", "into dumpfile", ";if", "; if",
	"0x1f", "0b01", "1e5", "1.5f", "1d", "1fu", "n'", "e'", "b'0", "x'1", "q'(", "nq'", "u&'", "or", "and", "collate", "sleep(", "is not", "group by", "::int", "`sleep`", "@@version", "information_schema"}

func c10Oracle(c ev.Case) Res {
	s, s2 := c.In, c.In2
	if len(s) != len(s2) {
		return Res{}
	}
	ex := sqliExempt(s)
	flipped := 0
	for i := 0; i < len(s); i++ {
		if s[i] == s2[i] {
			continue
		}
		if !gen.IsLetter(s[i]) || s[i]^0x20 != s2[i] || ex[i] {
			return Res{} // not a legal case re-assignment: outside the property's domain
		}
		flipped++
	}
	a, fa := lib.IsSQLi(s)
	b, fb := lib.IsSQLi(s2)
	if a != b || fa != fb {
		return fail("case re-assignment changed the result: %q -> (%v,%q) but %q -> (%v,%q)", s, a, fa, s2, b, fb)
	}
	if flipped == 0 {
		return Res{}
	}
	res := Res{}
	ls := gen.LowerASCII(s)
	for _, site := range c10Sites {
		for off := 0; ; {
			k := strings.Index(ls[off:], site)
			if k < 0 {
				break
			}
			for j := off + k; j < off+k+len(site); j++ {
				if s[j] != s2[j] {
					res.NT = true
					res.Class = "site_" + site
				}
			}
			off += k + 1
		}
		if res.Class != "" {
			break
		}
	}
	if a {
		res.NT = true
	}
	if !res.NT {
		// a keyword-table word or a literal prefix present?
		for i := 0; i < len(s); {
			if !gen.IsLetter(s[i]) && s[i] != '_' {
				i++
				continue
			}
			j := i
			for j < len(s) && (gen.IsLetter(s[j]) || s[j] == '_') {
				j++
			}
			if v := kwTab()[gen.UpperASCII(s[i:j])]; v != 0 && v != 'n' {
				res.NT = true
			}
			i = j
		}
	}
	return res
}

func maskCase(s string, ex []bool, mode int, salt int) string {
	b := []byte(s)
	k := 0
	for i := range b {
		if !gen.IsLetter(b[i]) || ex[i] {
			continue
		}
		up := false
		switch mode {
		case 0:
		case 1:
			up = true
		case 2:
			up = k%2 == 0
		case 3:
			up = k%2 == 1
		default:
			up = h64(salt, mode, k)&1 == 1
		}
		if up {
			b[i] &^= 0x20
		} else {
			b[i] |= 0x20
		}
		k++
	}
	return string(b)
}

func drawMask(rt *rapid.T, s string, ex []bool) string {
	mode := rapid.IntRange(0, 5).Draw(rt, "maskmode")
	if mode < 4 {
		return maskCase(s, ex, mode, 0)
	}
	b := []byte(s)
	for i := range b {
		if gen.IsLetter(b[i]) && !ex[i] && rapid.Bool().Draw(rt, "flip") {
			b[i] ^= 0x20
		}
	}
	return string(b)
}

// c10Witnesses: complete inputs exercising each folding site.
var c10Witnesses = []string{"1 union select 1", "1 union all select 1", "1 or 1=1", "1 and 1=1", "1 or not 1", "1 or 1 in (1)", "1 or 1 not in (1)", "1 or 'a' like ('a')", "1 or 'a' not like ('b')", "1 or user()=1", "1 or user_id()=1", "1 or current_user()=1", "1 or localtimestamp()=1", "1 or database()=1", "1 or password('a')=1",
	"1 union select 1 into outfile 'x'", "1 union select 1 into dumpfile 'x'", "1;if 1=1 select 1", "1; if(1=1) select 1", "1 or 0x1f=0x1f", "1 or 0b01=1", "1 or 1e5=1e5", "1 or 1.5f=1", "1 or 1d=1", "1funion select 1", "1 or n'a'=n'a'", "1 or e'a'='a'", "1 or b'01'=1", "1 or x'1f'=1", "1 or q'(a)'='a'", "1 or nq'(a)'='a'", "1 or u&'a'='a'",
	"1 or 'a' collate latin1_bin = 'a'", "1 and sleep(5)", "1 or 1 is not null", "1 group by 1", "1 or 1::int=1", "1 and `sleep`(5)", "1 union select @@version", "1 union select * from information_schema.tables", "1 or true", "1 xor 1", "1 div 1 or 1", "x' or 1=1 -- sp_password", "1 /*!union*/ select 1", "1 or \\N is null", "$a$x$a$ or 1=1", "1 or q'axa'='x'", "1 procedure analyse()", "1 waitfor delay '0:0:5'", "1; exec xp_cmdshell 'x'", "1 or 1 between 0 and 2", "1 or 1 sounds like 1", "1 union select 1 for update", "1 at time zone 'x' or 1", "select 1 with rollup",
	// a phrase whose second word is glued to '.' or a back-tick, or whose first word is back-quoted / bracketed
	"x' natural join`t` --", "1 union all select`a`", "1 waitfor delay.1", "x' into outfile`a` --", "`union` all select 1", "1 group by`a`", "1 order by.1", "x' natural left join`t` --", "1;insert into`t`values(1)", "1 union select`password`from`users`"}

func TestC10(t *testing.T) {
	c := NewCheck(t, "C10", "a case is a pair (s, s') where s' re-assigns the case of ASCII letters of s outside the exempt positions (letter after backslash, letter runs adjacent to $, letters occurring after some q'/Q', letters inside sp_password); oracle: IsSQLi(s') == IsSQLi(s) on verdict and fingerprint; pairs with s' == s or an illegal re-assignment are not counted; non-trivial = >= 1 letter flipped and (a letter of a folding-site witness flipped, or verdict true, or s contains a keyword-table word); deterministic parts duplicate-free, random parts deduplicated by FNV-64")
	c.rec.Assume = []string{"exempt positions are computed conservatively on s (a superset of what SQL makes case-sensitive)"}
	defer c.Finish()

	pair := func(s, s2 string) ev.Case { return ev.Case{Kind: "case", In: s, In2: s2} }

	// (1) witnesses: all 2^k masks when k <= 12 letters, else 4 fixed + 300 hash masks
	p := c.rec.NewPart("witness_masks", fmt.Sprintf("%d folding-site witnesses x every case mask (<= 12 letters) or 4 fixed + 300 hash-determined masks", len(c10Witnesses)), false, true, "")
	c.ParRange(p, int64(len(c10Witnesses)), func(w *Worker, i int64) {
		s := c10Witnesses[i]
		ex := sqliExempt(s)
		var letters []int
		for j := range s {
			if gen.IsLetter(s[j]) && !ex[j] {
				letters = append(letters, j)
			}
		}
		if len(letters) <= 12 {
			for m := 0; m < 1<<len(letters); m++ {
				b := []byte(s)
				for k, j := range letters {
					if m>>k&1 == 1 {
						b[j] ^= 0x20
					}
				}
				w.Judge(pair(s, string(b)))
			}
			return
		}
		for m := 0; m < 304; m++ {
			w.Judge(pair(s, maskCase(s, ex, m, int(i))))
		}
	})

	// (2) attack grammar members and token-level sequences x 4 fixed masks
	att := attackInputs()
	p = c.rec.NewPart("attack_grammar_masks", "one plain derivation per kept attack triple x {upper, alternating, alternating', hash mask}", false, true, "")
	c.ParRange(p, int64(len(att)), func(w *Worker, i int64) {
		ex := sqliExempt(att[i])
		for m := 1; m <= 4; m++ {
			w.Judge(pair(att[i], maskCase(att[i], ex, m, int(i))))
		}
	})
	p = c.rec.NewPart("token_sequences_masks", "every space-joined sequence of 1..3 token atoms x {upper, alternating, hash mask}", false, true, "")
	c.EnumSeq(p, tokenAtoms, " ", 1, 3, func(w *Worker, s string) {
		ex := sqliExempt(s)
		for _, m := range []int{1, 2, 4} {
			w.Judge(pair(s, maskCase(s, ex, m, len(s))))
		}
	})
	Lb := pick(3, 4)
	p = c.rec.NewPart("bytes_exhaustive_masks", fmt.Sprintf("every string of length 1..%d over the SQL byte-class alphabet x {upper, alternating}", Lb), false, true, "")
	c.EnumSeq(p, gen.AlphaSQL, "", 1, Lb, func(w *Worker, s string) {
		ex := sqliExempt(s)
		w.Judge(pair(s, maskCase(s, ex, 1, 0)))
		w.Judge(pair(s, maskCase(s, ex, 0, 0)))
		w.Judge(pair(s, maskCase(s, ex, 2, 0)))
	})

	// (2b) long inputs (>= 64 bytes) with invalid UTF-8 or case-folding code points in front of the attack
	p = c.rec.NewPart("long_prefixed_attacks_masks", "every 7th attack member behind \\xe9t\\xe9' / U+0131 / U+017F prefixes and padded to 64..96 bytes x {upper, lower, alternating}", false, true, "")
	c.ParRange(p, int64(len(att)/7), func(w *Worker, k int64) {
		a := att[k*7]
		for _, pre := range []string{"\xe9t\xe9' ", "\xbf' ", "caf\xc3\xa9' ", "\xe9\xe9\xe9 "} {
			s := pre + a + " -- "
			for len(s) < 64+int(k%33) {
				s += "x"
			}
			ex := sqliExempt(s)
			for _, m := range []int{0, 1, 2} {
				w.Judge(pair(s, maskCase(s, ex, m, 0)))
			}
		}
	})

	// (2c) every word of the keyword table in five templates x {upper, alternating, alternating', hash mask},
	// and every multi-word key with every per-word case assignment (each word all-upper or all-lower)
	var tableKeys []string
	for k, v := range kwTab() {
		if v != 'F' && len(k) >= 2 && gen.IsLetter(k[0]) {
			tableKeys = append(tableKeys, gen.LowerASCII(k))
		}
	}
	sort.Strings(tableKeys)
	p = c.rec.NewPart("table_keys_masks", fmt.Sprintf("%d word keys of the keyword table x 5 templates x 4 masks; multi-word keys x every per-word case assignment", len(tableKeys)), false, true, "")
	c.ParRange(p, int64(len(tableKeys)), func(w *Worker, i int64) {
		k := tableKeys[i]
		for _, t := range []string{"1 and K('a')=1", "1 K 1", "x' K --", "1; K t values(1)", "1 union K select 1"} {
			s := strings.ReplaceAll(t, "K", k)
			ex := sqliExempt(s)
			for m := 1; m <= 4; m++ {
				w.Judge(pair(s, maskCase(s, ex, m, int(i))))
			}
		}
		words := strings.Split(k, " ")
		if len(words) >= 2 && len(words) <= 6 {
			for m := 1; m < 1<<len(words); m++ {
				ws := make([]string, len(words))
				for j, wd := range words {
					if m>>j&1 == 1 {
						ws[j] = gen.UpperASCII(wd)
					} else {
						ws[j] = wd
					}
				}
				mixed := strings.Join(ws, " ")
				for _, t := range []string{"1 K 1", "1; K t values(1)", "x' K select 1 --", "1 K select 1"} {
					w.Judge(pair(strings.ReplaceAll(t, "K", k), strings.ReplaceAll(t, "K", mixed)))
				}
			}
		}
	})
	// (2d) code points that strings.ToUpper folds into ASCII, inside keywords: the relation must hold whichever way the library folds them
	var uf []string
	for _, s := range []string{"1 un\xc4\xb1on \xc5\xbfelect 1", "1 union \xc5\xbfelect 1", "x' or \xc5\xbfleep(5) --", "1 or u\xc5\xbfer()=1", "1; \xc4\xb1f 1=1 select 1", "1 un\xc4\xb1on all select 1", "1 l\xc4\xb1ke 1 or 1", "1 \xc4\xb1n (1) or 1"} {
		uf = append(uf, s)
	}
	p = c.rec.NewPart("unicode_fold_keywords_masks", "keywords spelled with U+0131 / U+017F x every mask over the remaining ASCII letters (<= 12) or 304 masks", false, true, "")
	c.ParRange(p, int64(len(uf)), func(w *Worker, i int64) {
		s := uf[i]
		ex := sqliExempt(s)
		for m := 0; m < 304; m++ {
			w.Judge(pair(s, maskCase(s, ex, m, int(i))))
		}
	})

	// (3) rapid
	p = c.rec.NewPart("rapid_fragments", "rapid: fragment-grammar input x drawn mask (lower / upper / alternating / per-letter)", true, false, "")
	g := gen.SQLInput()
	c.Rapid(p, 8, pick(100000, 900000), func(rt *rapid.T, sh int) ev.Case {
		s := g.Draw(rt, "s")
		return pair(s, drawMask(rt, s, sqliExempt(s)))
	})
	p = c.rec.NewPart("rapid_attacks_and_corpus", "rapid: attack grammar member or mutated fixture x per-letter mask", true, false, "")
	c.Rapid(p, 8, pick(60000, 700000), func(rt *rapid.T, sh int) ev.Case {
		var s string
		switch rapid.IntRange(0, 2).Draw(rt, "src") {
		case 0:
			s = rapid.SampledFrom(att).Draw(rt, "att")
		case 1:
			s = gen.Mutate(rt, rapid.SampledFrom(att).Draw(rt, "att"), gen.FragSQL)
		default:
			s = gen.Mutate(rt, rapid.SampledFrom(corp().SQL).Draw(rt, "fix"), gen.FragSQL)
		}
		return pair(s, drawMask(rt, s, sqliExempt(s)))
	})
	for _, s := range []string{"union", "select", "not in", "like (", "user(", "into outfile", ";if", "0x1f", "0b01", "1e5", "1.5f", "1fu", "n'", "e'", "b'0", "x'1", "nq'", "u&'", "collate", "sleep("} {
		c.rec.Require("site_" + s)
	}
}
