package props

import (
	"fmt"
	"os"
	"sync"

	lib "github.com/corazawaf/libinjection-go"
	"verifh/gen"
	"verifh/refsqli"
	"verifh/refxss"
)

var repoDir = func() string {
	if v := os.Getenv("VERIF_REPO"); v != "" {
		return v
	}
	return "/repo"
}()

// shared tables (copies obtained through the build-tagged accessors). They are built
// lazily so that a child process of C05 touches nothing of the library before its
// goroutines do.
var portD = refsqli.Deltas{VarNulDelim: true}

var (
	kwOnce    sync.Once
	kwVal     map[string]byte
	listsOnce sync.Once
	listsVal  *refxss.Lists
	corpOnce  sync.Once
	corpVal   gen.Corpus
)

func kwTab() map[string]byte {
	kwOnce.Do(func() { kwVal = lib.VKeywords() })
	return kwVal
}

func xlists() *refxss.Lists {
	listsOnce.Do(func() {
		l := &refxss.Lists{Tags: map[string]bool{}, Attrs: map[string]refxss.AttrType{}, Events: map[string]refxss.AttrType{}}
		for _, t := range lib.VBlackTags() {
			l.Tags[t] = true
		}
		for _, a := range lib.VBlackAttrs() {
			l.Attrs[a.Name] = refxss.AttrType(a.Type)
		}
		for _, a := range lib.VBlackEvents() {
			l.Events[a.Name] = refxss.AttrType(a.Type)
		}
		listsVal = l
	})
	return listsVal
}

func corp() *gen.Corpus {
	corpOnce.Do(func() { corpVal = gen.LoadCorpus(repoDir) })
	return &corpVal
}

const (
	fNone   = 1
	fSingle = 2
	fDouble = 4
	fANSI   = 8
	fMySQL  = 16
)

// the five passes IsSQLi may run, in order, plus the sixth combination of the property's mode set
var passModes = []int{fNone | fANSI, fNone | fMySQL, fSingle | fANSI, fSingle | fMySQL, fDouble | fMySQL}
var allModes = []int{fNone | fANSI, fNone | fMySQL, fSingle | fANSI, fSingle | fMySQL, fDouble | fMySQL, fDouble | fANSI}

func modeName(m int) string {
	q := map[int]string{fNone: "asis", fSingle: "'", fDouble: "\""}[m&7]
	d := "ANSI"
	if m&fMySQL != 0 {
		d = "MySQL"
	}
	return q + "/" + d
}

func cmpTok(a lib.VToken, b refsqli.Tok) bool {
	return a.Cat == b.Cat && a.Pos == b.Pos && a.Len == b.Len && a.Val == b.Val && a.Open == b.Open && a.Close == b.Close && a.Cnt == b.Cnt
}

func showTok(a lib.VToken) string {
	return fmt.Sprintf("{%c pos=%d len=%d val=%q open=%q close=%q cnt=%d after=%d}", a.Cat, a.Pos, a.Len, a.Val, a.Open, a.Close, a.Cnt, a.After)
}

func showRef(a refsqli.Tok) string {
	return fmt.Sprintf("{%c pos=%d len=%d val=%q open=%q close=%q cnt=%d}", a.Cat, a.Pos, a.Len, a.Val, a.Open, a.Close, a.Cnt)
}
