package props

import (
	"fmt"
	"strings"
	"testing"

	lib "github.com/corazawaf/libinjection-go"
	"pgregory.net/rapid"
	"verifh/ev"
	"verifh/gen"
)

// C11 - XSS detection is insensitive to letter case and to NUL bytes inside names.

func init() { registry["C11"] = c11Oracle }

func xssExempt(s string) []bool {
	ex := make([]bool, len(s))
	ls := gen.LowerASCII(s)
	for off := 0; ; {
		k := strings.Index(ls[off:], "[cdata[")
		if k < 0 {
			break
		}
		for j := 0; j < 7; j++ {
			ex[off+k+j] = true
		}
		off += k + 1
	}
	return ex
}

const (
	h5TagNameOpen = 1
	h5AttrName    = 6
)

func c11Oracle(c ev.Case) Res {
	switch c.Kind {
	case "case":
		s, s2 := c.In, c.In2
		if len(s) != len(s2) {
			return Res{}
		}
		ex := xssExempt(s)
		flipped := 0
		for i := 0; i < len(s); i++ {
			if s[i] == s2[i] {
				continue
			}
			if !gen.IsLetter(s[i]) || s[i]^0x20 != s2[i] || ex[i] {
				return Res{}
			}
			flipped++
		}
		a, b := lib.IsXSS(s), lib.IsXSS(s2)
		if a != b {
			return fail("case re-assignment changed IsXSS: %q -> %v but %q -> %v", s, a, s2, b)
		}
		any := a
		for ctx := 0; ctx < 5; ctx++ {
			x, y := lib.VIsXSSCtx(s, ctx), lib.VIsXSSCtx(s2, ctx)
			if x != y {
				return fail("case re-assignment changed the %s-context verdict: %q -> %v but %q -> %v", ctxNames[ctx], s, x, s2, y)
			}
			any = any || x
		}
		cls := ""
		if any {
			cls = "case_verdict_true"
		}
		return Res{NT: flipped > 0 && any, Class: cls}
	case "nul":
		// In = s, N = ctx | pos<<8 | count<<28
		s := c.In
		ctx, pos, cnt := c.N&0xff, (c.N>>8)&0xfffff, (c.N>>28)&0xfffff
		if ctx > 4 || pos <= 0 || pos >= len(s) || cnt < 1 {
			return Res{}
		}
		toks := lib.VH5Tokens(s, ctx, len(s)+3)
		inside := false
		black := false
		for _, t := range toks {
			if (t.Type == h5TagNameOpen || t.Type == h5AttrName) && pos > t.Off && pos < t.Off+t.Len {
				inside = true
				name := s[t.Off : t.Off+t.Len]
				if t.Type == h5TagNameOpen {
					black = lib.VIsBlackTag(name)
				} else {
					black = lib.VIsBlackAttr(name) != 0
				}
			}
		}
		if !inside {
			return Res{} // position is not strictly inside a name token: outside the property's domain
		}
		s2 := s[:pos] + strings.Repeat("\x00", cnt) + s[pos:]
		a, b := lib.VIsXSSCtx(s, ctx), lib.VIsXSSCtx(s2, ctx)
		if a != b {
			return fail("inserting %d NUL at offset %d (inside a name token, %s context) changed the verdict: %q -> %v, %q -> %v", cnt, pos, ctxNames[ctx], s, a, s2, b)
		}
		cls := "nul_plain_name"
		if black {
			cls = "nul_black_name"
		}
		return Res{NT: black || a, Class: cls}
	}
	return Res{}
}

func nulCase(s string, ctx, pos, cnt int) ev.Case {
	return ev.Case{Kind: "nul", In: s, N: ctx | pos<<8 | cnt<<28}
}

// namePositions lists every offset strictly inside a tag-name / attribute-name token of (s,ctx).
func namePositions(s string, ctx int) []int {
	var out []int
	for _, t := range lib.VH5Tokens(s, ctx, len(s)+3) {
		if t.Type == h5TagNameOpen || t.Type == h5AttrName {
			for p := t.Off + 1; p < t.Off+t.Len; p++ {
				out = append(out, p)
			}
		}
	}
	return out
}

// entityEncodedSchemeVectors: URL attributes whose value starts with a scheme word in which one letter (or all)
// is a numeric character reference. Hexadecimal references contain letters (x, a-f), so a case re-assignment
// changes the spelling of the reference and must not change what it decodes to.
func entityEncodedSchemeVectors() []string {
	var out []string
	refs := func(b byte) []string {
		return []string{fmt.Sprintf("&#x%x;", b), fmt.Sprintf("&#x%x", b), fmt.Sprintf("&#%d;", b), fmt.Sprintf("&#x00%x;", b)}
	}
	tmpl := []string{"<a href=V>", "<a href=\"V\">x</a>", "<iframe src='V'>", "<form action= V >"}
	for _, wd := range []string{"javascript:alert(1)", "vbscript:msgbox(1)", "data:text/html,x", "view-source:x", "JAVASCRIPT:alert(1)", "VBSCRIPT:x", "DATA:x", "VIEW-SOURCE:x"} {
		n := strings.IndexByte(wd, ':')
		all := [4]string{}
		for i := 0; i < n; i++ {
			for k, r := range refs(wd[i]) {
				all[k] += r
				for _, t := range tmpl {
					out = append(out, strings.Replace(t, "V", wd[:i]+r+wd[i+1:], 1))
				}
			}
		}
		for k := range all {
			for _, t := range tmpl {
				out = append(out, strings.Replace(t, "V", all[k]+wd[n:], 1))
			}
		}
	}
	return out
}

func TestC11(t *testing.T) {
	c := NewCheck(t, "C11", "kind case: pair (s,s') with s' a case re-assignment of the ASCII letters of s outside case-insensitive occurrences of [cdata[; oracle IsXSS and all five per-context verdicts equal; kind nul: (s, ctx, position strictly inside a tag-name or attribute-name token of (s,ctx), 1..3 NULs): the ctx verdict is unchanged; non-trivial = (case) a letter flipped and some verdict true, (nul) the name is a black tag/attribute or the verdict is true; deterministic parts duplicate-free, random parts deduplicated by FNV-64")
	c.rec.Assume = []string{"token boundaries and per-context verdicts read through the accessors"}
	defer c.Finish()
	vec := xssVectors()

	// (a) case
	p := c.rec.NewPart("case_vector_masks", fmt.Sprintf("%d XSS grammar vectors x {upper, lower, alternating, alternating', 2 hash masks}", len(vec)), false, true, "")
	c.ParRange(p, int64(len(vec)), func(w *Worker, i int64) {
		ex := xssExempt(vec[i])
		for m := 0; m < 6; m++ {
			if s2 := maskCase(vec[i], ex, m, int(i)); s2 != vec[i] {
				w.Judge(ev.Case{Kind: "case", In: vec[i], In2: s2})
			}
		}
	})
	La := pick(2, 3)
	p = c.rec.NewPart("case_atoms_masks", fmt.Sprintf("every concatenation of 1..%d markup atoms x {upper, alternating}", La), false, true, "")
	c.EnumSeq(p, htmlAtoms, "", 1, La, func(w *Worker, s string) {
		ex := xssExempt(s)
		for _, m := range []int{1, 2} {
			if s2 := maskCase(s, ex, m, 0); s2 != s {
				w.Judge(ev.Case{Kind: "case", In: s, In2: s2})
			}
		}
	})
	ee := entityEncodedSchemeVectors()
	p = c.rec.NewPart("case_entity_encoded_schemes", fmt.Sprintf("%d URL-attribute vectors whose scheme word has one letter (every position, either letter case), or every letter, written as a character reference (&#xHH; &#xHH &#DDD; - the hexadecimal digits and the x are letters too) x {upper, lower, alternating, alternating'}", len(ee)), false, true, "")
	c.ParRange(p, int64(len(ee)), func(w *Worker, i int64) {
		ex := xssExempt(ee[i])
		for m := 0; m < 4; m++ {
			if s2 := maskCase(ee[i], ex, m, int(i)); s2 != ee[i] {
				w.Judge(ev.Case{Kind: "case", In: ee[i], In2: s2})
			}
		}
	})
	p = c.rec.NewPart("rapid_case", "rapid: fragment-grammar input / vector / mutated corpus x drawn mask", true, false, "")
	g := gen.HTMLInput()
	c.Rapid(p, 8, pick(100000, 900000), func(rt *rapid.T, sh int) ev.Case {
		var s string
		switch rapid.IntRange(0, 3).Draw(rt, "src") {
		case 0:
			s = rapid.SampledFrom(vec).Draw(rt, "vec")
		case 1:
			s = gen.Mutate(rt, rapid.SampledFrom(vec).Draw(rt, "vec"), gen.FragHTML)
		case 2:
			s = gen.Mutate(rt, rapid.SampledFrom(corp().HTML).Draw(rt, "fix"), gen.FragHTML)
		default:
			s = g.Draw(rt, "s")
		}
		return ev.Case{Kind: "case", In: s, In2: drawMask(rt, s, xssExempt(s))}
	})

	// names spelled with the code points strings.ToUpper folds into ASCII (U+0131 for i, U+017F for s): the case
	// relation must hold whichever way the library folds them
	var ufv []string
	for _, nm := range []string{"script", "iframe", "style", "isindex", "noscript", "listener", "link"} {
		for _, sub := range [][2]string{{"i", "\xc4\xb1"}, {"s", "\xc5\xbf"}} {
			if strings.Contains(nm, sub[0]) {
				n2 := strings.Replace(nm, sub[0], sub[1], 1)
				ufv = append(ufv, "<"+n2+">", "<"+n2+" x>", "'><"+n2+">")
			}
		}
	}
	for _, nm := range []string{"onclick", "onerror", "onsubmit", "onresize", "src", "style", "action", "xlink:href", "dynsrc", "lowsrc", "datasrc"} {
		for _, sub := range [][2]string{{"i", "\xc4\xb1"}, {"s", "\xc5\xbf"}} {
			if strings.Contains(nm, sub[0]) {
				n2 := strings.Replace(nm, sub[0], sub[1], 1)
				ufv = append(ufv, "<img src=x "+n2+"=javascript:alert(1)>", "' "+n2+"=javascript:x '", "<a "+n2+"='javascript:x'>")
			}
		}
	}
	ufv = append(ufv, "<a href=java\xc5\xbfcript:x>", "<a href=v\xc4\xb1ew-source:x>", "<!doctype x", "<?\xc4\xb1mport x>", "<!ent\xc4\xb1ty x>", "<!--[\xc4\xb1f x]>")
	p = c.rec.NewPart("unicode_fold_names_masks", fmt.Sprintf("%d vectors whose tag / attribute / scheme name is spelled with U+0131 or U+017F x every mask over the ASCII letters (<= 12) or 304 masks", len(ufv)), false, true, "")
	c.ParRange(p, int64(len(ufv)), func(w *Worker, i int64) {
		s := ufv[i]
		ex := xssExempt(s)
		for m := 0; m < 304; m++ {
			if s2 := maskCase(s, ex, m, int(i)); s2 != s {
				w.Judge(ev.Case{Kind: "case", In: s, In2: s2})
			}
		}
	})

	p = c.rec.NewPart("nul_in_unicode_fold_names", "every position strictly inside a name token of the fold-code-point vectors x 5 contexts x {1, 3} NULs", false, true, "")
	c.ParRange(p, int64(len(ufv)), func(w *Worker, i int64) {
		s := ufv[i]
		for ctx := 0; ctx < 5; ctx++ {
			for _, ps := range namePositions(s, ctx) {
				w.Judge(nulCase(s, ctx, ps, 1))
				w.Judge(nulCase(s, ctx, ps, 3))
			}
		}
	})

	// (b) NUL insertion: every vector x every context x every inside position x 1 NUL (+ 3 NULs at the first position)
	p = c.rec.NewPart("nul_vectors_all_positions", "every XSS grammar vector (stride-sampled) x 5 contexts x every position strictly inside a name token x {1 NUL} (+ {3 NULs} at the first position)", false, true, "")
	stride := pick(7, 1)
	c.ParRange(p, int64(len(vec)/stride), func(w *Worker, k int64) {
		s := vec[int(k)*stride]
		for ctx := 0; ctx < 5; ctx++ {
			for j, pos := range namePositions(s, ctx) {
				w.Judge(nulCase(s, ctx, pos, 1))
				if j == 0 {
					w.Judge(nulCase(s, ctx, pos, 3))
				}
			}
		}
	})
	hb := htmlBoundaryInputs()
	p = c.rec.NewPart("boundary_inputs_case_and_nul", "boundary inputs (see C07) x {upper, lower, alternating}; and NUL runs of 8..100 bytes at every inside position of the name tokens of every 5th grammar vector", false, true, "")
	c.ParRange(p, int64(len(hb)), func(w *Worker, i int64) {
		ex := xssExempt(hb[i])
		if len(hb[i]) > 2000 {
			return
		}
		for m := 0; m < 3; m++ {
			if s2 := maskCase(hb[i], ex, m, 0); s2 != hb[i] {
				w.Judge(ev.Case{Kind: "case", In: hb[i], In2: s2})
			}
		}
	})
	c.ParRange(p, int64(len(vec)/5), func(w *Worker, k int64) {
		s := vec[int(k)*5]
		for ctx := 0; ctx < 5; ctx++ {
			pos := namePositions(s, ctx)
			for j, ps := range pos {
				if j%3 != 0 {
					continue
				}
				for _, cnt := range []int{8, 44, 45, 46, 47, 48, 49, 50, 64, 100, 255, 256, 1000} {
					w.Judge(nulCase(s, ctx, ps, cnt))
				}
			}
		}
	})

	p = c.rec.NewPart("nul_very_long_runs", "NUL runs of 4,100 and 70,000 bytes inside the names of 12 vectors, every context", false, true, "")
	longv := []string{"<script>", "<iframe x>", "<img src=x onerror=alert(1)>", "<a href=javascript:x>", "' onclick=1 '", "\" style=x \"", "<a xmlns=x>", "<set attributename=onclick>", "<xss>", "x onload=1", "<a xlink:href=javascript:x>", "` datasrc=x `"}
	c.ParRange(p, int64(len(longv)), func(w *Worker, i int64) {
		s := longv[i]
		for ctx := 0; ctx < 5; ctx++ {
			for j, ps := range namePositions(s, ctx) {
				if j%2 == 0 {
					for _, cnt := range []int{4100, 70000} {
						w.JudgeSlow(ev.Case{Kind: "nul", In: s, N: ctx | ps<<8 | cnt<<28})
					}
				}
			}
		}
	})

	p = c.rec.NewPart("rapid_nul", "rapid: fragment-grammar input / mutated vector x context x drawn inside position x 1..3 NULs", true, false, "")
	c.Rapid(p, 8, pick(100000, 900000), func(rt *rapid.T, sh int) ev.Case {
		var s string
		if rapid.Bool().Draw(rt, "src") {
			s = g.Draw(rt, "s")
		} else {
			s = gen.Mutate(rt, rapid.SampledFrom(vec).Draw(rt, "vec"), gen.FragHTML)
		}
		ctx := rapid.IntRange(0, 4).Draw(rt, "ctx")
		pos := namePositions(s, ctx)
		if len(pos) == 0 {
			return ev.Case{Kind: "nul", In: s, N: ctx} // no name token: judged as outside the domain
		}
		return nulCase(s, ctx, rapid.SampledFrom(pos).Draw(rt, "pos"), rapid.IntRange(1, 3).Draw(rt, "cnt"))
	})
	c.rec.Require("case_verdict_true", "nul_black_name", "nul_plain_name")
}
