package props

import (
	"fmt"
	"sort"
	"strings"
	"sync"
	"testing"

	lib "github.com/corazawaf/libinjection-go"
	"pgregory.net/rapid"
	"verifh/ev"
	"verifh/gen"
	"verifh/refsqli"
)

// C06 - SQLi pipeline conforms to the reference libinjection algorithm.

func init() { registry["C06"] = c06Oracle }

// tokenAtoms: G1 of DESIGN.md section 6 - token-level enumeration alphabet.
var tokenAtoms = []string{"1", "foo", "'a'", "@v", "select", "union", "or", "=", "-", "(", ")", ",", ";", ".", "\\", "{", "}", "::", "int", "collate", "x_y",
	"user", "if", "in", "like", "not", "/*c*/", "--x\n", "``", "+", "*", "all", "into", "sleep", "current_user"}
var tokenAtomsCore = []string{"1", "foo", "'a'", "@v", "select", "union", "or", "=", "-", "(", ")", ",", ";", ".", "\\", "{", "::", "int", "not", "/*c*/"}
var tokenAtomsThorough = []string{"1", "foo", "'a'", "@v", "select", "union", "or", "=", "-", "(", ")", ",", ";", ".", "\\", "{", "}", "::", "int", "not", "/*c*/", "user", "in", "--x\n"}

// fiveAtoms: targeted alphabet for the five-token special cases of the folder, including
// tokens whose class is only settled by a later rewrite (IN without '(' becomes a bare
// word, a backslash before an arithmetic operator becomes a number), so that the first
// five tokens match a pattern only after the sixth has been read.
var fiveAtoms = []string{"1", "foo", "in", "\\", "*", "=", ",", "(", ")", "union", "select", "or"}

func c06Oracle(c ev.Case) Res {
	in := c.In
	res := Res{}
	ruleClass := ""
	for _, m := range allModes {
		toks, st, _, capped := lib.VTokenize(in, m)
		if capped {
			return fail("mode %s: tokenizer hit the step cap (no progress)", modeName(m))
		}
		lx := refsqli.NewLexer(in, m, kwTab(), portD)
		i := 0
		interesting := false
		for {
			tk, ok := lx.Next()
			if !ok {
				break
			}
			if i >= len(toks) {
				return fail("mode %s: reference has extra token %d %s", modeName(m), i, showRef(tk))
			}
			if !cmpTok(toks[i], tk) || toks[i].After != lx.Pos() {
				return fail("mode %s: token %d impl=%s ref=%s ref_after=%d", modeName(m), i, showTok(toks[i]), showRef(tk), lx.Pos())
			}
			if tk.Cat == 's' || tk.Cat == 'c' || tk.Cat == 'v' {
				interesting = true
			}
			i++
		}
		if i != len(toks) {
			return fail("mode %s: impl has %d tokens, reference %d; first extra impl token %s", modeName(m), len(toks), i, showTok(toks[i]))
		}
		rs := lx.Stats()
		// statistics: only what the decision logic can observe (token count exactly; whether a
		// '#' or a '--x' comment was seen) - not how an implementation happens to count
		if (rs.DDX != 0) != (st.DDX != 0) || (rs.Hash != 0) != (st.Hash != 0) || rs.Tokens != st.Tokens {
			return fail("mode %s: tokenizer statistics impl=%+v ref=%+v", modeName(m), st, rs)
		}
		ft, fp, bl, vd, fst := lib.VFingerprint(in, m)
		r := refsqli.Fingerprint(in, m, kwTab(), portD)
		if fp != r.FP || bl != r.Blacklist || vd != r.Verdict {
			return fail("mode %s: fingerprint/blacklist/verdict impl=%q/%v/%v ref=%q/%v/%v", modeName(m), fp, bl, vd, r.FP, r.Blacklist, r.Verdict)
		}
		if fst.Tokens != r.Stats.Tokens || (fst.DDX != 0) != (r.Stats.DDX != 0) || (fst.Hash != 0) != (r.Stats.Hash != 0) {
			return fail("mode %s: fold statistics impl=%+v ref=%+v", modeName(m), fst, r.Stats)
		}
		if fp != "X" {
			if len(ft) != len(r.Toks) {
				return fail("mode %s: folded token count impl=%d ref=%d", modeName(m), len(ft), len(r.Toks))
			}
			for i := range ft {
				if !cmpTok(ft[i], r.Toks[i]) {
					return fail("mode %s: folded token %d impl=%s ref=%s", modeName(m), i, showTok(ft[i]), showRef(r.Toks[i]))
				}
			}
		}
		if len(toks) >= 2 && (interesting || r.Stats.Folds > 0) { // fold count of the reference, for classification only
			res.NT = true
		}
		if m == fNone|fANSI {
			for k, h := range r.Hits {
				if h > 0 {
					ruleClass = refsqli.RuleNames[k]
					break
				}
			}
		}
	}
	ok, fp := lib.IsSQLi(in)
	rok, rfp := refsqli.IsSQLi(in, kwTab(), portD)
	if ok != rok || fp != rfp {
		return fail("IsSQLi impl=%v/%q ref=%v/%q", ok, fp, rok, rfp)
	}
	if ruleClass != "" {
		res.Class = "first_rule_" + ruleClass
	} else if ok {
		res.Class = "verdict_true_nofold"
	}
	return res
}

// ruleCoverage counts, for one input, every rule of the reference that fired in any mode.
func ruleCoverage(l *ev.Local, in string) {
	var any [refsqli.NRules]bool
	for _, m := range allModes {
		r := refsqli.Fingerprint(in, m, kwTab(), portD)
		for k, h := range r.Hits {
			if h > 0 {
				any[k] = true
			}
		}
	}
	for k, b := range any {
		if b {
			l.Class("rule_"+refsqli.RuleNames[k], 1)
		}
	}
}

// sampled: deterministic 1-in-k selection by content (independent of scheduling)
func sampled(s string, k uint32) bool {
	h := uint32(2166136261)
	for i := 0; i < len(s); i++ {
		h = (h ^ uint32(s[i])) * 16777619
	}
	return h%k == 0
}

// fiveTokenPatternInputs realises the four class patterns of the folder's five-token
// special cases: 1 (o|,) ( 1 ) / n o ( (n|1) ) / 1 ) , ( 1 / n ) o ( n.
func fiveTokenPatternInputs() []string {
	real := map[byte][]string{
		'1': {"1", "2.5", "\\ *"}, // backslash + arithmetic operator becomes a number (and leaves the operator behind)
		'n': {"foo", "in", "x_y"}, // IN without '(' becomes a bare word
		'o': {"=", "*", "like"},
		',': {","},
		'(': {"("},
		')': {")"},
	}
	pats := []string{"1o(1)", "1,(1)", "no(n)", "no(1)", "1),(1", "n)o(n"}
	var out []string
	for _, p := range pats {
		acc := []string{""}
		for i := 0; i < len(p); i++ {
			var next []string
			for _, a := range acc {
				for _, r := range real[p[i]] {
					if a == "" {
						next = append(next, r)
					} else {
						next = append(next, a+" "+r)
					}
				}
			}
			acc = next
		}
		out = append(out, acc...)
	}
	return out
}

// stableAtoms: tokens that survive folding next to most neighbours, used to put a construct
// at an exact position of the five-token window
var stableAtoms = []string{"1", "foo", "'a'", "select", "union", ",", "(", ")", ";", "="}

// sqlBoundaryInputs: inputs aimed at exact positions and lengths the algorithm is
// sensitive to - the fifth/sixth token slot, the 31/32-byte token clip, merged phrases
// of 30..33 bytes, multi-byte characters across the clip, a byte-order mark at offset 0.
var (
	sqlBoundaryOnce sync.Once
	sqlBoundaryVal  []string
)

func sqlBoundaryInputs() []string {
	sqlBoundaryOnce.Do(func() {
		seen := map[string]bool{}
		add := func(s string) {
			if !seen[s] {
				seen[s] = true
				sqlBoundaryVal = append(sqlBoundaryVal, s)
			}
		}
		// (a) k stable tokens, then a construct whose handling depends on its slot
		slotted := []string{"{ ``", "{``", "{`", "{ `` 1", "{ foo", "order by 1", "group by 1", "waitfor delay '0:0:5'", "union all select 1", "not in (1)", "is not null", "natural join t", "into outfile 'x'",
			"natural right outer join t", "in (1)", "like (1)", "user()", "\\ * 1", "::int", "collate x_y", "/*c*/", "--x", "``", "+ 1", "- - 1", "not not 1"}
		var rec func(prefix []string, depth int)
		rec = func(prefix []string, depth int) {
			pre := strings.Join(prefix, " ")
			for ci, c := range slotted {
				if depth == 5 && ci >= 8 {
					break // behind five tokens only the constructs that matter in the look-ahead slot
				}
				if pre == "" {
					add(c)
				} else {
					add(pre + " " + c)
				}
			}
			if depth == 5 {
				return
			}
			for _, a := range stableAtoms {
				rec(append(prefix, a), depth+1)
			}
		}
		rec(nil, 0)
		// (b) two adjacent words / word+keyword of every length pair around the clip
		for a := 1; a <= 36; a++ {
			for b := 0; b <= 36; b++ {
				add(strings.Repeat("a", a) + " " + strings.Repeat("b", b))
				if a+b >= 26 && a+b <= 36 {
					add("1 union select " + strings.Repeat("a", a) + " " + strings.Repeat("b", b) + " from t")
					add(strings.Repeat("a", a) + " ``" + strings.Repeat("b", b))
				}
			}
		}
		for n := 20; n <= 70; n++ {
			w := strings.Repeat("a", n)
			for _, kwd := range []string{"limit", "or", "union", "select", "having", "and", "mod"} {
				add(w + "_" + kwd + " 25")
				add(w + kwd + " 25")
				add("x " + w + "." + kwd + " 1")
				add(w[:n/2] + "." + kwd + "`" + w[n/2:] + "` 1")
				add("1 union select`" + w + "`from`" + w + "`")
				add("1 " + kwd + "." + w)
			}
			// (c) multi-byte characters across the 31-byte clip, in every token kind
			for _, mb := range []string{"\xc3\xa9", "\xe2\x82\xac", "\xf0\x9f\x98\x80", "\xe9"} {
				if n <= 40 {
					add("select " + w + mb + "tude from t")
					add("'" + w + mb + "' or 1=1")
					add("/*" + w + mb + "*/ 1")
					add("@" + w + mb + " = 1")
					add("`" + w + mb + "` = 1")
				}
			}
			// (d) a candidate closing quote beyond the clip, with backslash runs in front of it
			for _, q := range []string{"'", "\"", "`"} {
				for _, bs := range []string{"", "\\", "\\\\", "\\\\\\"} {
					add(q + w + bs + q + " union select 1 -- " + q + ", 2")
					add(w + bs + q + " or 1=1 -- ")
					if n >= 28 && n <= 34 {
						add(w[:n-2] + "\\" + "bb" + q + " or 1=1 -- ")
					}
				}
			}
		}
		// (f) raw token counts around 8-bit boundaries on the inputs whose verdict depends on the
		// token count (whitelist of "very small SQLi": 1U, 1c, s&n, n&1, 1&1, 1&v, 1&s)
		for k := 120; k <= 135; k++ {
			list := strings.Repeat(",1", k)
			add("x' and 1" + list)
			add("sexy and 17" + list)
			add("1" + list + " union")
			add("1" + list + " --")
			add("foo and @a" + strings.Repeat("+@a", k))
			add("1 and 'a'" + strings.Repeat(",'a'", k))
		}
		for _, k := range []int{32764, 32765, 32766, 32767, 32768, 32769} {
			add("x' and 1" + strings.Repeat(",1", k))
		}
		// (g) every multi-word key of the table between prefixes and suffixes that leave 0..2 unfolded tokens in front of it
		var phrases []string
		for k, v := range kwTab() {
			if v != 'F' && strings.Contains(k, " ") {
				phrases = append(phrases, gen.LowerASCII(k))
			}
		}
		sort.Strings(phrases)
		for _, ph := range phrases {
			for _, pre := range []string{"", "1 ", "1 + ", "1 , ", "foo = ", "( ", "1 or ", "select ", "x' ", "1 ; ", "1 union ", ") "} {
				for _, suf := range []string{"", " 1", " or 1", " (1)", " foo", " --", " t values(1)", " 1 or 1=1"} {
					add(pre + ph + suf)
				}
			}
		}
		// (j) every word key of the table (any class) in the positions where its class decides the fingerprint
		var wordKeys []string
		for k, v := range kwTab() {
			if v != 'F' && !strings.Contains(k, " ") && len(k) >= 2 && (gen.IsLetter(k[0]) || k[0] == '_') {
				wordKeys = append(wordKeys, gen.LowerASCII(k))
			}
		}
		sort.Strings(wordKeys)
		for _, wk := range wordKeys {
			for _, t := range []string{"1 and W(5)", "x' and W(5) --", "1 W 1", "W(", "1, W", "1 or W()=1", "x' W 1 --", "1; W t"} {
				add(strings.ReplaceAll(t, "W", wk))
			}
		}
		// (h) the eleven function-like names in every token form, in front of '('
		for _, nm := range []string{"user_id", "user_name", "database", "password", "user", "current_user", "current_date", "current_time", "current_timestamp", "localtime", "localtimestamp", "version", "sleep"} {
			for _, form := range []string{nm, "`" + nm + "`", "@" + nm, "@@" + nm, "[" + nm + "]", gen.UpperASCII(nm), "@`" + nm + "`"} {
				for _, t := range []string{"1 or W() = 1", "1 or W(1) = 1", "1 or W () like 'r%'", "x' and W()=1 --", "select W()", "W(", "1 union select W() from t"} {
					add(strings.ReplaceAll(t, "W", form))
				}
			}
		}
		// (i) very long inputs (a work bound or a narrow integer type shows only beyond 64 kB / 1 MB / 4 MB / 16 MB)
		for _, n := range []int{65536 + 1, 1<<20 + 1, 4<<20 + 33, 16<<20 + 7} {
			add("1" + strings.Repeat(" ", n) + " union select password from users")
			add("x' or '" + strings.Repeat("a", n) + "'='a' union select 1 -- ")
		}
		// (k) keywords, numbers and back-quoted names glued together without any delimiter byte
		glue := []string{"select", "from", "union", "case", "when", "not", "binary", "having", "or", "and", "`x`", "`users`", ".1", ".5e1", "1", "a"}
		var g func(prefix string, depth int)
		g = func(prefix string, depth int) {
			if prefix != "" {
				add(prefix)
				add("1 " + prefix)
			}
			if depth == 4 {
				return
			}
			for _, a := range glue {
				g(prefix+a, depth+1)
			}
		}
		g("", 0)
		// (l) characters whose upper- or lower-case form has a different UTF-8 length (computed from the unicode
		// tables): a buffer sized from the input length overflows or a slice shrinks when they are case-mapped
		cm := caseLengthChangers()
		for i, r := range cm {
			w5, w13 := strings.Repeat(r, 5), strings.Repeat(r, 13)
			r2 := cm[(i+1)%len(cm)]
			for _, t := range []string{"W", "1 W", "W W", "select W from t", "x' or W=W --", "W(", "`W`", "@W", "1 union select W", w13 + " " + r2 + r + r2 + r, "a" + r + "b " + r2 + "c"} {
				add(strings.ReplaceAll(t, "W", w5))
				add(strings.ReplaceAll(t, "W", w13))
				add(strings.ReplaceAll(t, "W", "sel"+r+"ct"))
			}
		}
		// (n) words made of letters that shrink when upper-cased, with '.' or a back-tick at or near the end
		for _, r := range []string{"\xc4\xb1", "\xc5\xbf", "\xe1\xbe\xbe"} {
			for _, w := range []string{r + r, "a" + r + "b" + r, "kald" + r + "rd" + r + "m", r + r + r + r, "select" + r + r} {
				for _, t := range []string{"W.", "W. ", "W.W", "W`", "W`x`", "x W.1", "W.a.b", "1 W. 2"} {
					add(strings.ReplaceAll(t, "W", w))
				}
			}
		}
		// (o) multi-byte spaces (U+00A0 as C2 A0, U+3000, U+2003) right after words and blanks
		for _, sp := range []string{"\xc2\xa0", "\xe3\x80\x80", "\xe2\x80\x83", "\xc2", "\xc2\xa0\xc2\xa0"} {
			for _, t := range []string{"1 unionSselect 2", "1 orS1=1", "1 S or 1=1", "1 or S union", "selectS1", "x'SorS'1'='1", "1Sunion selectS1", "fooS", "S1", "1 andSsleep(5)"} {
				add(strings.ReplaceAll(t, "S", sp))
			}
		}
		// (p) typographic / fullwidth look-alikes of quotes, comment markers and separators
		for i, a := range attackInputs() {
			if i%97 == 0 {
				for k := 0; k < 3; k++ {
					add(gen.Confuse(a, k))
				}
				add(gen.Fullwidth(a))
			}
		}
		// (m) a quote beyond the clip followed by gated tails (state carried between the readings of one call)
		for n := 28; n <= 40; n++ {
			w := strings.Repeat("a", n)
			for _, q := range []string{"'", "\""} {
				for _, tail := range []string{" or #x\n b", " #\n or 1=1", " --x\n or 1=1", " and x", " or b", " or 1=1 #", " or #\n 1", " and #x\n 'b"} {
					add(w + q + tail)
				}
			}
		}
		// (e) byte-order mark and alias runes in front of fixtures
		for i, f := range corp().SQL {
			if i%4 == 0 {
				add(gen.BOM + f)
				add(gen.BOM + gen.BOM + f)
				add("\xe9t\xe9' " + f)
			}
		}
		// (m) constructs at offsets and behind token counts around the 8- and 16-bit boundaries: a position, a
		// length or a counter kept in a narrow integer type, or masked, shows only there
		ovec := []string{" union select password from users", " or 1=1 -- ", "' or 'a'='a", "; drop table t", " and sleep(5) #", "\" or \"\"=\"", " q'(a)' or 1=1", " $t$a$t$ union select 1", " /*! or 1=1 */", " 1e1 or 0x1 = 1"}
		for _, n := range []int{250, 251, 252, 253, 254, 255, 256, 257, 258, 259, 260, 511, 512, 513, 65534, 65535, 65536, 65537} {
			for vi, v := range ovec {
				if n > 1000 && vi > 3 {
					break
				}
				add("1" + strings.Repeat(" ", n-1) + v)
				add("1/*" + strings.Repeat("a", n-5) + "*/" + v)
				add("'" + strings.Repeat("a", n-2) + "'" + v)
				add(strings.Repeat("a", n-1) + " " + v)
				add("1 --" + strings.Repeat("a", n-5) + "\n" + v)
			}
		}
		for _, n := range []int{6, 7, 8, 9, 15, 16, 17, 31, 32, 33, 63, 64, 65, 127, 128, 129, 255, 256, 257, 1023, 1024, 1025} {
			for _, v := range ovec[:6] {
				for _, unit := range []string{"1,", "a ", "(", "1+", "'a' ", "@a,", "a.b ", "1 or "} {
					add(strings.Repeat(unit, n) + v)
					add(strings.Repeat(unit, n) + "1" + v)
				}
			}
		}
		// (f) mirrored delimiters outside the documented sets: dollar tags with digits, underscores,
		// non-ASCII or mixed-case letters and q-strings with arbitrary (also multi-byte) delimiters,
		// closed by an identical copy, a case variant or a different tag
		mbodies := []string{"abc", "", "a$b", "x' or 1=1 --", "1"}
		mrests := []string{"", " or 1=1 -- ", " union select 1", "x"}
		tags := []string{"a1", "a_b", "fn_2024", "q_0001", "_a", "1a", "\xc3\xa9", "a\xc3\xa9", "a-b", "a b", "A", "aB", "a$b", "abc_def_ghi_jkl", "a", "ab"}
		for _, tg := range tags {
			for _, b := range mbodies {
				for _, r := range mrests {
					add("$" + tg + "$" + b + "$" + tg + "$" + r)
					add("select $" + tg + "$" + b + "$" + tg + "$" + r)
					add("$" + tg + "$" + b + "$" + gen.UpperASCII(tg) + "$" + r)
					add("$" + gen.UpperASCII(tg) + "$" + b + " $" + tg + "$" + r)
					add("$" + tg + "$" + b + "$" + tg + "x$" + r + "$" + tg + "$")
					add("1 $" + tg + "$" + b + " $" + gen.LowerASCII(tg) + "$ or 1=1 --")
				}
			}
		}
		delims := []string{"\xc2\xa7", "\xe2\x82\xac", "\xc3\xa9", "\x80", "\xff", "\xc2", "\xf0\x9f\x98\x80", "a", "1", "_", " ", "\t", "\x00", "'", "q", "|", "(", "["}
		for _, d := range delims {
			for _, pre := range []string{"q'", "Q'", "nq'", "Nq'", "NQ'", "select q'", "1 nq'"} {
				for _, b := range []string{"abc", "", "a'b", "x' or 1=1 --", "ab"} {
					for _, r := range mrests {
						add(pre + d + b + d + "'" + r)
						add(pre + d + b + d + "' " + d + "'" + r)
					}
				}
			}
		}
		// (o) compound table keys with one word written as a back-quoted / bracketed / quoted name, glued by
		// '_' or split by a comment: only the plain spelling is the compound keyword
		var comp []string
		for k, v := range kwTab() {
			if strings.Contains(k, " ") && v != 'F' {
				comp = append(comp, k)
			}
		}
		sort.Strings(comp)
		for _, k := range comp {
			ws := strings.Fields(gen.LowerASCII(k))
			var forms []string
			for i := range ws {
				for _, q := range [][2]string{{"`", "`"}, {"[", "]"}, {"\"", "\""}, {"(", ")"}} {
					c := append([]string{}, ws...)
					c[i] = q[0] + c[i] + q[1]
					forms = append(forms, strings.Join(c, " "))
				}
			}
			forms = append(forms, strings.Join(ws, "_"), strings.Join(ws, "/**/"), strings.Join(ws, "\n"), strings.Join(ws, " "), strings.Join(ws, "  "), strings.Join(ws, " /*x*/ "))
			for _, f := range forms {
				add("1 " + f + " 1")
				add("1 " + f + " select 1")
				add("1 " + f + " (1)")
				add("x' " + f + " 1 -- ")
			}
		}
		// (p) every function-class table word directly behind ';' and behind "; " (statement position)
		var fns []string
		for k, v := range kwTab() {
			if v == 'f' && len(k) <= 12 {
				fns = append(fns, gen.LowerASCII(k))
			}
		}
		sort.Strings(fns)
		for _, lk := range fns {
			add("1;" + lk + "(1,2)")
			add("1; " + lk + "(1)")
			add("1;" + lk + " 1")
		}
		// (n) quotes, blanks and comment bytes written in the encodings that surround SQL in practice: plain
		// bytes for the library, which decodes nothing
		evec := []string{"1' or '1'='1", "x' or 1=1 -- ", "1 or 1=1", "1 union select 2", "\" or \"\"=\"", "1; drop table t", "1' and sleep(5) #", "admin'--", "1/**/or/**/1=1", "') or ('a'='a"}
		for _, v := range evec {
			for k := 0; k < 15; k++ {
				add(gen.Encode(v, "'", k))
				add(gen.Encode(v, "\"", k))
				add(gen.Encode(v, " ", k))
				add(gen.Encode(v, "' ", k))
				add(gen.Encode(v, "-#/", k))
				add(gen.Encode(v, "'\" -#/;(", k))
				add(gen.Encode(v, "=", k))
			}
		}
		// (g) characters the Unicode-aware library helpers class with ASCII blanks, digits and letters,
		// in front of, behind and in place of the blanks of short vectors
		uvec := []string{"1 or 1=1", "1 union select 2", "' or 1=1 --", "1; drop table t", "select 1 from t", "1 or 1", "a b", "1 2", "x' and 'a'='a", "-1 or sleep(1)", "1"}
		for _, lists := range [][]string{gen.UnicodeSpaces, gen.UnicodeDigits, gen.UnicodeLetters} {
			for _, u := range lists {
				for _, v := range uvec {
					add(u + v)
					add(v + u)
					add(u + " " + v)
					add(strings.ReplaceAll(v, " ", u))
					add(strings.ReplaceAll(v, " ", " "+u))
					add(strings.ReplaceAll(v, "1", u))
					add(strings.ReplaceAll(v, "1", "1"+u))
				}
			}
		}
	})
	return sqlBoundaryVal
}

// fpRealisations: for every fingerprint key of the shipped table, inputs built from
// representative tokens of each class (picked from the keyword table itself for the word
// classes) that the REFERENCE folds to exactly that fingerprint. Every blacklist entry that
// can be realised this way is then exercised at least once by the differential, so an entry
// that the look-up can no longer reach is noticed.
var (
	fpRealOnce  sync.Once
	fpRealVal   []string
	fpRealKeys  int
	fpRealTotal int
)

func fpRealisations() ([]string, int, int) {
	fpRealOnce.Do(func() {
		kwt := kwTab()
		reps := map[byte][]string{
			'1': {"1", "2.5"}, 'n': {"foo", "x_y"}, 's': {"'a'", "\"b\""}, 'v': {"@v", "@@x"}, 'o': {"=", "*", "<>"}, '&': {"and", "or", "||"},
			'c': {"/*c*/", "-- x"}, '(': {"("}, ')': {")"}, ',': {","}, ';': {";"}, ':': {":"}, '.': {"."}, '{': {"{"}, '}': {"}"}, '?': {"?"}, '\\': {"\\"}, 'X': {"/*!x*/", "/*/**/*/"},
		}
		// word classes: up to three single-word, letters-only keys per class, shortest first
		var keys []string
		for k := range kwt {
			keys = append(keys, k)
		}
		sort.Slice(keys, func(i, j int) bool {
			if len(keys[i]) != len(keys[j]) {
				return len(keys[i]) < len(keys[j])
			}
			return keys[i] < keys[j]
		})
		for _, k := range keys {
			c := kwt[k]
			if strings.IndexByte("kUBEtfAT", c) < 0 || len(reps[c]) >= 3 || len(k) < 3 {
				continue
			}
			ok := true
			for i := 0; i < len(k); i++ {
				if k[i] < 'A' || k[i] > 'Z' {
					ok = false
				}
			}
			if ok {
				reps[c] = append(reps[c], gen.LowerASCII(k))
			}
		}
		reps['f'] = append(reps['f'], "sleep")
		var fps []string
		for k, v := range kwt {
			if v == 'F' && len(k) >= 2 && k[0] == '0' {
				fps = append(fps, k[1:])
			}
		}
		sort.Strings(fps)
		fpRealTotal = len(fps)
		classOf := func(u byte) []byte { // table keys are upper-cased class strings
			var out []byte
			for _, c := range []byte(sqlClassAlphabet) {
				uc := c
				if uc >= 'a' && uc <= 'z' {
					uc -= 32
				}
				if uc == u {
					out = append(out, c)
				}
			}
			return out
		}
		seen := map[string]bool{}
		for _, fp := range fps {
			// the key is upper-cased: U may mean 'U', K may mean 'k', ... resolve each position to its class(es)
			var classes [][]byte
			for i := 0; i < len(fp); i++ {
				classes = append(classes, classOf(fp[i]))
			}
			found := 0
			var try func(i int, parts []string, want []byte)
			try = func(i int, parts []string, want []byte) {
				if found >= 2 {
					return
				}
				if i == len(classes) {
					in := strings.Join(parts, " ")
					r := refsqli.Fingerprint(in, fNone|fANSI, kwt, portD)
					if r.FP == string(want) && r.Blacklist && !seen[in] {
						seen[in] = true
						fpRealVal = append(fpRealVal, in)
						found++
					}
					return
				}
				for _, c := range classes[i] {
					for ri, rep := range reps[c] {
						if ri > 0 && found > 0 {
							break
						}
						try(i+1, append(parts, rep), append(want, c))
					}
				}
			}
			try(0, nil, nil)
			if found > 0 {
				fpRealKeys++
			}
		}
	})
	return fpRealVal, fpRealKeys, fpRealTotal
}

// caseLengthChangers: every character below U+3000 whose strings.ToUpper or strings.ToLower form
// has a different UTF-8 length than the character itself (a sample of at most 48, spread evenly).
func caseLengthChangers() []string {
	var all []string
	for r := rune(0x80); r < 0x3000; r++ {
		s := string(r)
		if len(strings.ToUpper(s)) != len(s) || len(strings.ToLower(s)) != len(s) {
			all = append(all, s)
		}
	}
	if len(all) <= 48 {
		return all
	}
	var out []string
	for i := 0; i < 48; i++ {
		out = append(out, all[i*len(all)/48])
	}
	return out
}

func sqlCase(in string) ev.Case { return ev.Case{Kind: "diff", In: in} }

// sqlTruncations: every prefix of every literal form and of every corpus entry (G4).
func sqlTruncationInputs() []string {
	forms := []string{"q'(a)'", "nq'[a]'", "$a$b$a$", "$$a$$", "0x1f", "0b01", "1e+5", "1.5e-3f", "/*a*/", "/*!a*/", "@@a", "@`a`", "@'a'", "x'1f'", "b'01'", "u&'a'", "n'a'", "e'a'", "\\N",
		"'a\\'b'", "'a''b'", "\"a\\\"b\"", "`a``b`", "--a\nb", "#a\nb", "<=>", "[a]", "1fUNION", "$1,000.5", "select`a`", "a.b.c"}
	ctx := []string{"", " ", "1 ", "'", "\"", "a", "(", "1,", "\\", "@", "-", "/*"}
	seen := map[string]bool{}
	var out []string
	add := func(s string) {
		if !seen[s] {
			seen[s] = true
			out = append(out, s)
		}
	}
	for _, f := range forms {
		for _, c := range ctx {
			for k := 0; k <= len(f); k++ {
				add(c + f[:k])
				add(c + f[:k] + " ")
			}
		}
	}
	for _, s := range corp().SQL {
		for k := 0; k <= len(s) && k < 200; k++ {
			add(s[:k])
		}
		add(s)
	}
	return out
}

func TestC06(t *testing.T) {
	c := NewCheck(t, "C06", "cases are byte strings judged in all 6 parsing modes (token stream, scan offsets, statistics, folded tokens, fingerprint, blacklist bit, per-mode verdict, IsSQLi verdict+fingerprint vs the reference model); enumerated parts are duplicate-free by construction, random parts are deduplicated by FNV-64; a case is non-trivial when in some mode it has >= 2 tokens and either a folding step fired or a string/comment/variable token occurs")
	c.rec.Assume = []string{"reference model refsqli (written from the algorithm, shares only the keyword table obtained through VKeywords)", "port-specific rules P1,P5,P6 of DESIGN.md section 3", "inputs containing U+017F/U+0131/U+212A/U+0130 are excluded (strings.ToUpper folding)"}
	defer c.Finish()

	judge := func(w *Worker, s string) {
		if gen.HasUnicodeFold(s) {
			w.l.Class("excluded_unicode_fold", 1)
			return
		}
		w.Judge(sqlCase(s))
	}

	// (1a) bounded-exhaustive over the byte-class alphabet
	L := pick(3, 4)
	p := c.rec.NewPart("bytes_exhaustive", fmt.Sprintf("every string of length 0..%d over the %d-symbol SQL byte-class alphabet", L, len(gen.AlphaSQL)), false, true, fmt.Sprintf("%d^<=%d", len(gen.AlphaSQL), L))
	c.EnumSeq(p, gen.AlphaSQL, "", 0, L, judge)
	core := gen.CoreSQL[:18] // the 18 symbols that open, close or escape a construct
	if thorough() {
		p = c.rec.NewPart("bytes_core24_exhaustive", "every string of length 5 over the 24-symbol core alphabet", false, true, "")
		c.EnumSeq(p, gen.CoreSQL, "", 5, 5, judge)
		p = c.rec.NewPart("bytes_core_exhaustive", "every string of length 6 over the 18-symbol core alphabet", false, true, "")
		c.EnumSeq(p, core, "", 6, 6, judge)
	} else {
		p = c.rec.NewPart("bytes_core_exhaustive", fmt.Sprintf("every string of length %d..5 over the %d-symbol core alphabet", L+1, len(core)), false, true, "")
		c.EnumSeq(p, core, "", L+1, 5, judge)
	}

	// (1b) token-level enumeration (space-joined atoms)
	p = c.rec.NewPart("tokens_exhaustive", fmt.Sprintf("every space-joined sequence of 1..4 atoms over %d token atoms", len(tokenAtoms)), false, true, "")
	c.EnumSeq(p, tokenAtoms, " ", 1, 4, func(w *Worker, s string) {
		if sampled(s, 97) {
			ruleCoverage(w.l, s)
		}
		judge(w, s)
	})
	if thorough() {
		p = c.rec.NewPart("tokens_core_exhaustive", fmt.Sprintf("every space-joined sequence of 5 atoms over %d core atoms", len(tokenAtomsThorough)), false, true, "")
		c.EnumSeq(p, tokenAtomsThorough, " ", 5, 5, judge)
		p = c.rec.NewPart("tokens_core16_exhaustive", "every space-joined sequence of 6 atoms over the first 16 core atoms", false, true, "")
		c.EnumSeq(p, tokenAtomsThorough[:16], " ", 6, 6, judge)
	} else {
		p = c.rec.NewPart("tokens_core_exhaustive", fmt.Sprintf("every space-joined sequence of 5 atoms over %d core atoms", len(tokenAtomsCore)), false, true, "")
		c.EnumSeq(p, tokenAtomsCore, " ", 5, 5, judge)
	}

	Lf := pick(6, 7)
	p = c.rec.NewPart("five_token_exhaustive", fmt.Sprintf("every space-joined sequence of exactly %d atoms over the %d-atom five-token-special alphabet", Lf, len(fiveAtoms)), false, true, "")
	c.EnumSeq(p, fiveAtoms, " ", Lf, Lf, func(w *Worker, s string) {
		if sampled(s, 13) {
			ruleCoverage(w.l, s)
		}
		judge(w, s)
	})

	// five-token patterns (each class realised by several atoms, including late-rewritten ones)
	// followed by every sequence of 0..3 (thorough 4) trailing atoms: the folder re-enters its
	// loop with left > 0 and a sixth token in hand
	pats := fiveTokenPatternInputs()
	trail := []string{"1", "foo", "=", "(", ")", ",", "union", "select", "or", "-", "'a'", "/*c*/"}
	Lt := pick(3, 4)
	p = c.rec.NewPart("five_token_patterns_with_tails", fmt.Sprintf("%d realisations of the four five-token patterns x every sequence of 0..%d trailing atoms over %d atoms", len(pats), Lt, len(trail)), false, true, "")
	c.EnumSeq(p, trail, " ", 0, Lt, func(w *Worker, tail string) {
		for _, pre := range pats {
			s := pre
			if tail != "" {
				s += " " + tail
			}
			if sampled(s, 29) {
				ruleCoverage(w.l, s)
			}
			judge(w, s)
		}
	})

	fpr, fpKeys, fpTotal := fpRealisations()
	p = c.rec.NewPart("fingerprint_realisations", fmt.Sprintf("inputs built from class representatives that the reference folds to exactly a blacklist key: %d of the %d fingerprint keys realised (up to 2 inputs each)", fpKeys, fpTotal), false, true, "")
	c.ParRange(p, int64(len(fpr)), func(w *Worker, i int64) { judge(w, fpr[i]) })
	c.rec.Extra["fingerprint_keys_realised"] = fpKeys
	c.rec.Extra["fingerprint_keys_total"] = fpTotal

	bnd := sqlBoundaryInputs()
	p = c.rec.NewPart("boundary_inputs", "slot-dependent constructs behind 0..5 stable tokens; word pairs of every length pair around the 31/32-byte clip; long words ending in / containing keywords; multi-byte characters across the clip; closing quotes beyond the clip behind backslash runs; BOM-prefixed fixtures", false, true, "")
	c.ParRange(p, int64(len(bnd)), func(w *Worker, i int64) {
		if sampled(bnd[i], 7) {
			ruleCoverage(w.l, bnd[i])
		}
		judge(w, bnd[i])
	})

	// truncations
	tr := sqlTruncationInputs()
	p = c.rec.NewPart("truncations", "every prefix of every literal form behind 12 contexts, every prefix of every corpus input", false, true, "")
	c.ParRange(p, int64(len(tr)), func(w *Worker, i int64) { ruleCoverage(w.l, tr[i]); judge(w, tr[i]) })

	// (2) rapid fragment grammar
	wc := wordColliders()
	p = c.rec.NewPart("hash_collision_identifiers", fmt.Sprintf("%d identifiers whose 32-bit hash equals that of a keyword-table word (8 hash functions, both case conventions; see C14) in 6 templates", len(wc)), false, true, "")
	c.ParRange(p, int64(len(wc)), func(w *Worker, i int64) {
		for _, t := range []string{"W", "1 W 2", "1 W (2)", "W(1)", "a W b", "1 W"} {
			judge(w, strings.ReplaceAll(t, "W", wc[i].Word))
		}
		judge(w, "1 "+gen.UpperASCII(wc[i].Word)+" 2")
	})
	p = c.rec.NewPart("source_bytes", fmt.Sprintf("bytes the SQLi source files write as literals and the byte-class alphabet lacks, inserted at every position of every string of 0..%d core symbols, and behind every hostile construct opener at the end of the input", 2), false, true, "")
	c.srcByteInputs(p, extraBytes(srcDict().SQLBytes, gen.AlphaSQL), gen.CoreSQL, 2, sqlHostile, judge)
	p = c.rec.NewPart("source_dictionary", fmt.Sprintf("%d lead constructs (closed and open literals of every kind, numbers, words, punctuation, comments) x blank? x W x blank? x every tail of 0..2 (thorough 3) symbols over %q, for each word W (as written, upper, lower) that occurs as a literal in the SQLi source files and is not a table key", len(sqlDictLeads), sqlDictTail), false, true, "")
	c.sqlDictInputs(p, pick(2, 3), judge)
	p = c.rec.NewPart("source_dictionary_near_miss", fmt.Sprintf("the source-dictionary words with exactly one byte replaced by its neighbour under the case bit (b^0x20, e.g. '_' -> 0x7f, single-letter case flips) or the high bit (b^0x80), behind the same %d lead constructs x blank? x W x blank? x every tail of 0..1 symbols", len(sqlDictLeads)), false, true, "")
	c.sqlNearMissInputs(p, judge)
	var nmKeys []string
	for k, v := range kwTab() {
		if v != 'F' && len(k) >= 2 && gen.IsLetter(k[0]) {
			nmKeys = append(nmKeys, k)
		}
	}
	sort.Strings(nmKeys)
	p = c.rec.NewPart("table_keys_near_miss", fmt.Sprintf("%d word keys of the keyword table (upper and lower case) with exactly one byte replaced by its neighbour under the high bit (b^0x80, every position) or, for a non-letter ('_', ' ', '.', digits), under the case bit (b^0x20), in 5 templates", len(nmKeys)), false, true, "")
	c.ParRange(p, int64(len(nmKeys)), func(w *Worker, i int64) {
		for _, k := range []string{nmKeys[i], gen.LowerASCII(nmKeys[i])} {
			for j := 0; j < len(k); j++ {
				flips := []byte{0x80}
				if !gen.IsLetter(k[j]) {
					flips = []byte{0x80, 0x20}
				}
				for _, x := range flips {
					b := []byte(k)
					b[j] ^= x
					for _, t := range []string{"1 K 1", "1 and K('a')=1", "x' K --", "1 union K select 1", "1; K t values(1)"} {
						judge(w, strings.ReplaceAll(t, "K", string(b)))
					}
				}
			}
		}
	})
	p = c.rec.NewPart("rapid_fragments", "pgregory.net/rapid over the SQL fragment grammar (fragments + arbitrary bytes, drawn separators, tail-repeat)", true, false, "")
	g := gen.SQLInput()
	c.Rapid(p, 8, pick(25000, 600000), func(rt *rapid.T, sh int) ev.Case {
		s := g.Draw(rt, "in")
		if gen.HasUnicodeFold(s) {
			s = ""
		}
		return sqlCase(s)
	})

	p = c.rec.NewPart("rapid_token_sequences", "rapid: 5..16 token atoms (35-atom list + quotes, comments, keywords) joined by drawn separators - deep folder states", true, false, "")
	atomsX := append(append([]string{}, tokenAtoms...), "'", "\"", "#", "-- ", "and", "by", "group", "order", "from", "null", "is", "2", "'b'", "@@x", "sleep(1)", "user()", "x.y", "!!", "~", "not in", "between", "case", "when", "0x1", "$a$b$a$", "q'(a)'", "[x]", "`y`")
	c.Rapid(p, 8, pick(20000, 500000), func(rt *rapid.T, sh int) ev.Case {
		n := rapid.IntRange(5, 16).Draw(rt, "n")
		var sb strings.Builder
		for i := 0; i < n; i++ {
			if i > 0 {
				sb.WriteString(rapid.SampledFrom([]string{" ", " ", " ", "", "\t", "/**/"}).Draw(rt, "sep"))
			}
			sb.WriteString(rapid.SampledFrom(atomsX).Draw(rt, "atom"))
		}
		return sqlCase(sb.String())
	})

	// (3) corpus mutation
	p = c.rec.NewPart("rapid_corpus_mutation", "rapid: a repository fixture with 1-4 edits (insert fragment/byte, delete, duplicate, splice, case flip, truncate, tail repeat)", true, false, "")
	c.Rapid(p, 4, pick(15000, 500000), func(rt *rapid.T, sh int) ev.Case {
		s := gen.Mutate(rt, rapid.SampledFrom(corp().SQL).Draw(rt, "base"), gen.FragSQL)
		if gen.HasUnicodeFold(s) {
			s = ""
		}
		return sqlCase(s)
	})

	for k := 0; k < refsqli.NRules; k++ {
		if k == refsqli.RBraceEvil || k == refsqli.RTickComment {
			continue // reached by the fragment grammar only with luck; reported, not required
		}
		c.rec.Require("rule_" + refsqli.RuleNames[k])
	}
}
