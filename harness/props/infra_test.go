package props

import (
	"bytes"
	"encoding/json"
	"flag"
	"fmt"
	"hash/fnv"
	"os"
	"path/filepath"
	"runtime"
	"runtime/debug"
	"strconv"
	"sync"
	"sync/atomic"
	"testing"
	"time"

	"pgregory.net/rapid"
	"verifh/ev"
)

// ---------------------------------------------------------------------------
// environment

var (
	tier           = "quick"
	seed     int64 = 1
	verifDir       = "/verif"
	workers        = runtime.NumCPU()
)

func TestMain(m *testing.M) {
	if v := os.Getenv("VERIF_TIER"); v == "thorough" {
		tier = v
	}
	if v := os.Getenv("VERIF_SEED"); v != "" {
		if n, err := strconv.ParseInt(v, 10, 64); err == nil {
			seed = n
		}
	}
	if v := os.Getenv("VERIF_DIR"); v != "" {
		verifDir = v
	}
	if v := os.Getenv("VERIF_WORKERS"); v != "" {
		if n, err := strconv.Atoi(v); err == nil && n > 0 {
			workers = n
		}
	}
	debug.SetGCPercent(800)
	if childMain() {
		return
	}
	os.Exit(m.Run())
}

func thorough() bool { return tier == "thorough" }

// pick returns q in the quick tier and t in the thorough tier.
func pick(q, t int) int {
	if thorough() {
		return t
	}
	return q
}

// ---------------------------------------------------------------------------
// oracles

// Res is the judgement of one case: Err != "" is a violation; NT says whether
// the case was non-trivial by the property's stated rule; Class is a histogram
// bucket.
type Res struct {
	Err   string
	NT    bool
	Class string
}

type Oracle func(c ev.Case) Res

var registry = map[string]Oracle{}

func fail(format string, a ...interface{}) Res { return Res{Err: fmt.Sprintf(format, a...)} }

// safe runs the oracle and turns a panic into a violation.
func safe(o Oracle, c ev.Case) (r Res) {
	defer func() {
		if p := recover(); p != nil {
			r = Res{Err: fmt.Sprintf("PANIC: %v", p), NT: true, Class: "panic"}
		}
	}()
	return o(c)
}

// Check bundles the recorder, the oracle and the hang watchdog of one property run.
type Check struct {
	t      *testing.T
	id     string
	rec    *ev.Recorder
	oracle Oracle

	noMinimise bool // grammar-membership checks: a shrunk input would leave the domain

	wdMu    sync.Mutex
	wdSlots []*wdSlot
	hangSec int
}

type wdSlot struct {
	mu    sync.Mutex
	c     ev.Case
	since time.Time
	busy  bool
}

func NewCheck(t *testing.T, id string, rule string) *Check {
	c := &Check{t: t, id: id, rec: ev.New(id, tier, seed, verifDir), oracle: registry[id], hangSec: 60}
	c.rec.Rule = rule
	if id == "C09" || id == "C05" {
		c.hangSec = 900 // long-running cases by design (timing families, child processes)
	}
	if c.oracle == nil {
		t.Fatalf("no oracle registered for %s", id)
	}
	go c.watchdog()
	// regression tier: committed cases of the repaired defects, replayed first, bypassing every generator
	if files, _ := filepath.Glob(filepath.Join(verifDirEarly(), "regressions", id+"-*.json")); len(files) > 0 {
		p := c.rec.NewPart("regression_replays", "committed replay files of repaired defects (regressions/"+id+"-*.json)", false, true, "")
		w := c.Worker(p)
		for _, f := range files {
			if prop, cs, err := ev.LoadCase(f); err == nil && prop == id {
				w.JudgeSlow(cs)
			}
		}
		w.Done()
	}
	// known findings: replay each listed open finding so that it is reported
	for _, f := range c.rec.OpenFindings() {
		if r := safe(c.oracle, f.Case()); r.Err != "" {
			c.rec.Violate(f.Case(), r.Err)
		}
	}
	return c
}

func (c *Check) slot() *wdSlot {
	s := &wdSlot{}
	c.wdMu.Lock()
	c.wdSlots = append(c.wdSlots, s)
	c.wdMu.Unlock()
	return s
}

// watchdog: a case that has been running for hangSec seconds is reported as a
// hang (only used by properties whose oracle is "the call returns"; everywhere
// else it merely keeps a stuck run from burning the whole time budget).
func (c *Check) watchdog() {
	for {
		time.Sleep(time.Second)
		c.wdMu.Lock()
		slots := append([]*wdSlot(nil), c.wdSlots...)
		c.wdMu.Unlock()
		for _, s := range slots {
			s.mu.Lock()
			if s.busy && time.Since(s.since) > time.Duration(c.hangSec)*time.Second {
				cs := s.c
				s.mu.Unlock()
				c.rec.Violate(cs, fmt.Sprintf("HANG: no return within %d s", c.hangSec))
				os.Exit(exitFrom(c.rec.Finish()))
			}
			s.mu.Unlock()
		}
	}
}

func exitFrom(code int) int { return code }

// Worker is a per-goroutine handle: it judges cases, counts them and reports violations.
type Worker struct {
	c  *Check
	l  *ev.Local
	s  *wdSlot
	n  int
	ex bool
}

func (c *Check) Worker(p *ev.Part) *Worker {
	return &Worker{c: c, l: c.rec.Local(p), s: c.slot()}
}

func (w *Worker) Judge(cs ev.Case) bool {
	w.n++
	if w.n&63 == 1 {
		w.s.mu.Lock()
		w.s.c, w.s.since, w.s.busy = cs, time.Now(), true
		w.s.mu.Unlock()
	}
	if len(cs.In)+len(cs.In2) >= journalMin || (cs.Kind == "long" && cs.N >= journalMin) {
		defer w.journal(cs)()
	}
	r := safe(w.c.oracle, cs)
	w.l.Count(cs, r.NT, r.Class)
	if r.Err != "" {
		w.c.rec.Violate(cs, r.Err)
		return false
	}
	return true
}

// In-flight journal. Exhausting the goroutine stack (and a few other runtime failures, such as
// concurrent map writes) is a fatal error that recover() cannot turn into a verdict: the test
// process dies. Only large inputs can use up the 1 GB default stack, so every case of 256 kB or
// more is written to <verif dir>/.inflight/ before the oracle runs and removed afterwards. When
// the process dies, the driver re-runs each case left there in a fresh process (role "journal"
// converts it into a replay file) and reports the one that kills it as the violation.
const journalMin = 256 << 10

func (w *Worker) journal(cs ev.Case) func() {
	dir := filepath.Join(verifDir, ".inflight")
	os.MkdirAll(dir, 0o755)
	path := filepath.Join(dir, fmt.Sprintf("%s.%d.%p.case", w.c.id, os.Getpid(), w))
	hdr, _ := json.Marshal(map[string]interface{}{"property": w.c.id, "kind": cs.Kind, "n": cs.N, "len_in": len(cs.In), "len_in2": len(cs.In2)})
	f, err := os.Create(path)
	if err != nil {
		return func() {}
	}
	f.Write(append(hdr, '\n'))
	f.WriteString(cs.In)
	f.WriteString(cs.In2)
	f.Close()
	return func() { os.Remove(path) }
}

// journalChild: VERIF_CHILD=journal VERIF_JOURNAL=<file>: converts a journal entry into a replay file and prints its path.
func journalChild() {
	b, err := os.ReadFile(os.Getenv("VERIF_JOURNAL"))
	if err != nil {
		fmt.Println("journal: " + err.Error())
		os.Exit(2)
	}
	i := bytes.IndexByte(b, '\n')
	var h struct {
		Property string `json:"property"`
		Kind     string `json:"kind"`
		N        int    `json:"n"`
		LenIn    int    `json:"len_in"`
		LenIn2   int    `json:"len_in2"`
	}
	if i < 0 || json.Unmarshal(b[:i], &h) != nil || len(b) != i+1+h.LenIn+h.LenIn2 {
		fmt.Println("journal: entry is incomplete")
		os.Exit(2)
	}
	body := b[i+1:]
	rec := ev.New(h.Property, tier, seed, verifDir)
	fmt.Println("JOURNAL-REPLAY " + rec.WriteReplay(ev.Case{Kind: h.Kind, N: h.N, In: string(body[:h.LenIn]), In2: string(body[h.LenIn:])}, "in flight when the test process died of a fatal runtime error"))
	os.Exit(0)
}

// JudgeSlow is Judge with an exact watchdog stamp (for long-running cases).
func (w *Worker) JudgeSlow(cs ev.Case) bool {
	w.n = 0
	return w.Judge(cs)
}

func (w *Worker) Done() {
	w.s.mu.Lock()
	w.s.busy = false
	w.s.mu.Unlock()
	w.l.Flush()
}

func (w *Worker) Stopped() bool { return w.c.rec.Stopped() }

// Finish minimises violations, writes evidence and fails the test on violation.
func (c *Check) Finish() {
	v := c.rec.Violations()
	open := c.rec.OpenFindings()
	for i := range v {
		known := false
		for _, f := range open {
			if f.Matches(v[i].C) {
				known = true
			}
		}
		if i < 3 && !known {
			v[i] = c.minimise(v[i])
		}
	}
	c.rec.ReplaceViolations(v)
	code := c.rec.Finish()
	switch code {
	case 1:
		c.t.Fail()
	case 2:
		fmt.Println("EXIT2")
		c.t.Fail()
	}
}

// minimise: byte-wise delta debugging on In (and In2 when both must stay equal
// length is not required): drop a byte / replace by 'a' while the oracle keeps failing.
func (c *Check) minimise(v ev.Violation) ev.Violation {
	if c.noMinimise || len(v.C.In) > 4096 || v.C.In2 != "" {
		return v
	}
	deadline := time.Now().Add(5 * time.Second)
	fails := func(in string) (string, bool) {
		cs := v.C
		cs.In = in
		r := safe(c.oracle, cs)
		return r.Err, r.Err != ""
	}
	cur, msg := v.C.In, v.Msg
	for changed := true; changed && time.Now().Before(deadline); {
		changed = false
		for i := 0; i < len(cur) && time.Now().Before(deadline); i++ {
			cand := cur[:i] + cur[i+1:]
			if m, f := fails(cand); f {
				cur, msg, changed = cand, m, true
				i--
			}
		}
	}
	for i := 0; i < len(cur) && time.Now().Before(deadline); i++ {
		if cur[i] != 'a' {
			cand := cur[:i] + "a" + cur[i+1:]
			if m, f := fails(cand); f {
				cur, msg = cand, m
			}
		}
	}
	v.C.In, v.Msg = cur, msg
	return v
}

// ---------------------------------------------------------------------------
// parallel enumeration

// ParRange calls fn(w, i) for i in [0,n) from `workers` goroutines in chunks.
func (c *Check) ParRange(p *ev.Part, n int64, fn func(w *Worker, i int64)) {
	var next int64
	chunk := int64(2048)
	if n < 400_000 {
		chunk = 1 + n/int64(workers*64)
	}
	var wg sync.WaitGroup
	for k := 0; k < workers; k++ {
		wg.Add(1)
		go func() {
			defer wg.Done()
			w := c.Worker(p)
			defer w.Done()
			for !w.Stopped() {
				lo := atomic.AddInt64(&next, chunk) - chunk
				if lo >= n {
					return
				}
				hi := lo + chunk
				if hi > n {
					hi = n
				}
				for i := lo; i < hi && !w.Stopped(); i++ {
					fn(w, i)
				}
			}
		}()
	}
	wg.Wait()
}

// pow returns k^l.
func pow(k, l int) int64 {
	r := int64(1)
	for i := 0; i < l; i++ {
		r *= int64(k)
	}
	return r
}

// EnumSeq enumerates every sequence of length 0..maxLen (minLen..maxLen) over
// the symbol list, shorter first, and calls fn with the concatenation (joined by sep).
func (c *Check) EnumSeq(p *ev.Part, syms []string, sep string, minLen, maxLen int, fn func(w *Worker, s string)) int64 {
	k := len(syms)
	var total int64
	for l := minLen; l <= maxLen; l++ {
		if c.rec.Stopped() {
			break
		}
		n := pow(k, l)
		total += n
		ll := l
		c.ParRange(p, n, func(w *Worker, i int64) {
			var buf [256]byte
			b := buf[:0]
			x := i
			for j := 0; j < ll; j++ {
				if j > 0 {
					b = append(b, sep...)
				}
				b = append(b, syms[x%int64(k)]...)
				x /= int64(k)
			}
			fn(w, string(b))
		})
	}
	return total
}

// ---------------------------------------------------------------------------
// rapid runner

type capTB struct {
	name   string
	failed bool
	msgs   []string
}

func (t *capTB) Helper()                          {}
func (t *capTB) Name() string                     { return t.name }
func (t *capTB) Logf(f string, a ...interface{})  {}
func (t *capTB) Log(a ...interface{})             {}
func (t *capTB) Skipf(f string, a ...interface{}) { runtime.Goexit() }
func (t *capTB) Skip(a ...interface{})            { runtime.Goexit() }
func (t *capTB) SkipNow()                         { runtime.Goexit() }
func (t *capTB) Errorf(f string, a ...interface{}) {
	t.failed = true
	t.msgs = append(t.msgs, fmt.Sprintf(f, a...))
}
func (t *capTB) Error(a ...interface{})            { t.failed = true; t.msgs = append(t.msgs, fmt.Sprint(a...)) }
func (t *capTB) Fatalf(f string, a ...interface{}) { t.Errorf(f, a...); runtime.Goexit() }
func (t *capTB) Fatal(a ...interface{})            { t.Error(a...); runtime.Goexit() }
func (t *capTB) FailNow()                          { t.failed = true; runtime.Goexit() }
func (t *capTB) Fail()                             { t.failed = true }
func (t *capTB) Failed() bool                      { return t.failed }

var rapidStart sync.Mutex

func rapidSeed(part string, shard int) uint64 {
	h := fnv.New64a()
	h.Write([]byte(part))
	s := uint64(seed)*1_000_003 + uint64(shard)*7919 + h.Sum64()%1_000_000_007
	if s == 0 {
		s = 1
	}
	return s
}

// Rapid runs `shards` independent rapid.Check searches (distinct PRNG seeds
// derived from VERIF_SEED, the part name and the shard index) of `checks` cases
// each, concurrently. gen draws a case; the case is judged by the property's
// oracle. On failure rapid shrinks; the shrunk case is what gets recorded.
func (c *Check) Rapid(p *ev.Part, shards, checks int, gen func(rt *rapid.T, shard int) ev.Case) {
	var wg sync.WaitGroup
	for sh := 0; sh < shards; sh++ {
		wg.Add(1)
		sh := sh
		started := make(chan struct{})
		var once sync.Once
		rapidStart.Lock()
		flag.Set("rapid.seed", strconv.FormatUint(rapidSeed(p.Name, sh), 10))
		flag.Set("rapid.checks", strconv.Itoa(checks))
		flag.Set("rapid.nofailfile", "true")
		flag.Set("rapid.shrinktime", "20s")
		go func() {
			defer wg.Done()
			defer once.Do(func() { close(started) })
			w := c.Worker(p)
			defer w.Done()
			tb := &capTB{name: fmt.Sprintf("%s_%s_%d", c.id, p.Name, sh)}
			var last *ev.Violation
			func() {
				done := make(chan struct{})
				go func() {
					defer close(done)
					rapid.Check(tb, func(rt *rapid.T) {
						once.Do(func() { close(started) })
						if last == nil && w.Stopped() {
							return // another shard already failed: finish quickly
						}
						cs := gen(rt, sh)
						w.n++
						if w.n&63 == 1 {
							w.s.mu.Lock()
							w.s.c, w.s.since, w.s.busy = cs, time.Now(), true
							w.s.mu.Unlock()
						}
						r := safe(c.oracle, cs)
						w.l.Count(cs, r.NT, r.Class)
						if r.Err != "" {
							last = &ev.Violation{C: cs, Msg: r.Err}
							rt.Fatalf("%s", r.Err)
						}
					})
				}()
				<-done
			}()
			if last != nil {
				c.rec.Violate(last.C, last.Msg)
			} else if tb.failed {
				// rapid itself complained (generator health); infrastructure problem, not a verdict
				fmt.Printf("RAPID-PROBLEM %s: %v\n", tb.name, tb.msgs)
				c.rec.AddClass("rapid_problem", 1)
			}
		}()
		<-started
		rapidStart.Unlock()
	}
	wg.Wait()
}

// ---------------------------------------------------------------------------
// replay

func TestReplay(t *testing.T) {
	path := os.Getenv("VERIF_REPLAY")
	if path == "" {
		t.Skip("VERIF_REPLAY not set")
	}
	prop, cs, err := ev.LoadCase(path)
	if err != nil {
		fmt.Printf("cannot load replay: %v\n", err)
		os.Exit(2)
	}
	if want := os.Getenv("VERIF_PROP"); want != "" && want != prop {
		fmt.Printf("replay file is for %s, not %s\n", prop, want)
		os.Exit(2)
	}
	o := registry[prop]
	if o == nil {
		fmt.Printf("no oracle for %s\n", prop)
		os.Exit(2)
	}
	r := safe(o, cs)
	if r.Err != "" {
		fmt.Printf("FAILED-CASE property=%s kind=%s n=%d input=%q input2=%q : %s\n", prop, cs.Kind, cs.N, cs.In, cs.In2, r.Err)
		fmt.Printf("VIOLATION property=%s replay=%s\n", prop, path)
		t.Fail()
		return
	}
	fmt.Printf("REPLAY-OK property=%s (case no longer violates)\n", prop)
}
