package props

func stackChild()  {}
func oracleChild() {}
func concChild()   {}
