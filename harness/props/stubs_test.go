package props

func oracleChild() {}
func concChild()   {}
