package props

import (
	"bufio"
	"bytes"
	"encoding/hex"
	"encoding/json"
	"fmt"
	"os"
	"os/exec"
	"runtime"
	"sort"
	"strings"
	"sync"
	"testing"
	"time"

	lib "github.com/corazawaf/libinjection-go"
	"pgregory.net/rapid"
	"verifh/ev"
	"verifh/gen"
)

// C05 - both detectors are thread-safe and pure: same input, same answer, always.
// The test binary is built with -race for this property.
//
// result(x) is the string "S<verdict>:<fingerprint>|X<verdict>". The fresh-process
// oracle fresh(x) is the result of x as the very first library call of a brand-new
// process (child role "oracle"). Every other observation - after any history, in any
// order, from any goroutine - must equal it.

func init() { registry["C05"] = c05Oracle }

func resultOf(x string) string {
	b, f := lib.IsSQLi(x)
	return fmt.Sprintf("S%v:%s|X%v", b, f, lib.IsXSS(x))
}

// rawResult keeps the fingerprint string exactly as returned (no copy), so that a
// result which is later overwritten through shared memory is noticed when it is
// formatted after further calls.
type rawResult struct {
	b  bool
	f  string
	xs bool
}

func rawOf(x string) rawResult {
	b, f := lib.IsSQLi(x)
	return rawResult{b, f, lib.IsXSS(x)}
}

func (r rawResult) String() string { return fmt.Sprintf("S%v:%s|X%v", r.b, r.f, r.xs) }

type childJob struct {
	Inputs []string `json:"inputs"` // hex
	G      int      `json:"goroutines,omitempty"`
	Rounds int      `json:"rounds,omitempty"`
	Yield  int      `json:"yield,omitempty"`
	Procs  int      `json:"procs,omitempty"`
}

func readJob() (childJob, []string) {
	var j childJob
	json.NewDecoder(bufio.NewReaderSize(os.Stdin, 1<<20)).Decode(&j)
	in := make([]string, len(j.Inputs))
	for i, h := range j.Inputs {
		b, _ := hex.DecodeString(h)
		in[i] = string(b)
	}
	return j, in
}

// oracleChild: evaluate the inputs sequentially, in the given order, print one result per line.
func oracleChild() {
	_, in := readJob()
	w := bufio.NewWriter(os.Stdout)
	raws := make([]rawResult, len(in))
	for i, x := range in {
		raws[i] = rawOf(x)
	}
	// results are formatted only after the whole history ran: a returned string must still say the same
	for _, r := range raws {
		fmt.Fprintf(w, "R %s\n", hex.EncodeToString([]byte(r.String())))
	}
	w.Flush()
	os.Exit(0)
}

// concChild: G goroutines are started before any library call of this process; each
// walks its own rotation of the inputs for `rounds` rounds; every result is compared
// with the result the same goroutine-independent evaluation must give (all goroutines
// must agree with each other; the parent compares with the fresh oracle).
func concChild() {
	j, in := readJob()
	if j.Procs > 0 {
		runtime.GOMAXPROCS(j.Procs)
	}
	n := len(in)
	res := make([][]string, j.G)
	var wg sync.WaitGroup
	start := make(chan struct{})
	for g := 0; g < j.G; g++ {
		wg.Add(1)
		go func(g int) {
			defer wg.Done()
			mine := make([]string, n)
			<-start
			for r := 0; r < j.Rounds; r++ {
				for k := 0; k < n; k++ {
					i := (k + g*7 + r*3) % n // a different rotation per goroutine and round
					got := resultOf(in[i])
					if mine[i] == "" {
						mine[i] = got
					} else if mine[i] != got {
						mine[i] = mine[i] + " <> " + got
					}
					if j.Yield > 0 && (k+g)%j.Yield == 0 {
						runtime.Gosched()
					}
				}
			}
			res[g] = mine
		}(g)
	}
	close(start)
	wg.Wait()
	w := bufio.NewWriter(os.Stdout)
	for i := 0; i < n; i++ {
		agreed := res[0][i]
		for g := 1; g < j.G; g++ {
			if res[g][i] != agreed {
				agreed = agreed + " <> g" + fmt.Sprint(g) + ":" + res[g][i]
				break
			}
		}
		fmt.Fprintf(w, "R %s\n", hex.EncodeToString([]byte(agreed)))
	}
	w.Flush()
	os.Exit(0)
}

// runChild returns the result lines of a child, or an error text (child death, race report).
func runChild(role string, job childJob) ([]string, string) {
	cmd := exec.Command(os.Args[0], "-test.run", "^$")
	cmd.Env = append(os.Environ(), "VERIF_CHILD="+role, "GORACE=halt_on_error=1 exitcode=66 atexit_sleep_ms=0")
	raw, _ := json.Marshal(job)
	cmd.Stdin = bytes.NewReader(raw)
	var out, errb bytes.Buffer
	cmd.Stdout, cmd.Stderr = &out, &errb
	done := make(chan error, 1)
	if err := cmd.Start(); err != nil {
		return nil, "INFRA cannot start child: " + err.Error()
	}
	go func() { done <- cmd.Wait() }()
	var err error
	select {
	case err = <-done:
	case <-time.After(300 * time.Second):
		cmd.Process.Kill()
		return nil, "child did not finish within 300 s"
	}
	if strings.Contains(errb.String(), "DATA RACE") {
		e := errb.String()
		if len(e) > 3000 {
			e = e[:3000]
		}
		return nil, "race detector report:\n" + e
	}
	if err != nil {
		e := errb.String()
		if len(e) > 1500 {
			e = e[:1500]
		}
		return nil, fmt.Sprintf("child died (%v): %s", err, e)
	}
	var lines []string
	for _, l := range strings.Split(out.String(), "\n") {
		if strings.HasPrefix(l, "R ") {
			b, _ := hex.DecodeString(l[2:])
			lines = append(lines, string(b))
		}
	}
	return lines, ""
}

func hexAll(in []string) []string {
	o := make([]string, len(in))
	for i, s := range in {
		o[i] = hex.EncodeToString([]byte(s))
	}
	return o
}

// fresh-process oracle, cached
var (
	freshMu  sync.Mutex
	freshMap = map[string]string{}
)

func freshOf(x string) (string, string) {
	freshMu.Lock()
	if r, ok := freshMap[x]; ok {
		freshMu.Unlock()
		return r, ""
	}
	freshMu.Unlock()
	lines, e := runChild("oracle", childJob{Inputs: hexAll([]string{x})})
	if e != "" {
		return "", e
	}
	if len(lines) != 1 {
		return "", "INFRA oracle child printed no result"
	}
	freshMu.Lock()
	freshMap[x] = lines[0]
	freshMu.Unlock()
	return lines[0], ""
}

const histSep = "\x1e"

func c05Oracle(c ev.Case) Res {
	seq := strings.Split(c.In, histSep)
	switch c.Kind {
	case "history":
		// in-process sequential history: every observation equals the fresh-process result
		raws := make([]rawResult, len(seq))
		for i, x := range seq {
			want, e := freshOf(x)
			if e != "" {
				if strings.HasPrefix(e, "INFRA") {
					return Res{Class: "infra_problem"}
				}
				return fail("fresh-process oracle failed on %q: %s", x, e)
			}
			raws[i] = rawOf(x)
			if got := raws[i].String(); got != want {
				return fail("step %d of the history: result of %q is %s, in a fresh process it is %s", i, x, got, want)
			}
		}
		for i, x := range seq {
			want, _ := freshOf(x)
			if got := raws[i].String(); got != want {
				return fail("the result returned at step %d for %q read %s when returned but reads %s after the later calls of the history", i, x, want, got)
			}
		}
		rep := false
		seen := map[string]int{}
		for i, x := range seq {
			if j, ok := seen[x]; ok && i-j > 1 {
				rep = true
			}
			seen[x] = i
		}
		return Res{NT: rep, Class: "history"}
	case "order":
		// a whole history evaluated by a brand-new process, compared with fresh results
		lines, e := runChild("oracle", childJob{Inputs: hexAll(seq)})
		if e != "" {
			if strings.HasPrefix(e, "INFRA") {
				return Res{Class: "infra_problem"}
			}
			return fail("child evaluating the history failed: %s", e)
		}
		if len(lines) != len(seq) {
			return fail("child returned %d results for %d inputs", len(lines), len(seq))
		}
		for i, x := range seq {
			want, e := freshOf(x)
			if e != "" {
				return Res{Class: "infra_problem"}
			}
			if lines[i] != want {
				return fail("position %d of a fresh process's history: result of %q is %s, as first call of a process it is %s", i, x, lines[i], want)
			}
		}
		return Res{NT: len(seq) >= 2, Class: "order"}
	case "conc":
		g := c.N & 0xff
		yield := c.N >> 8 & 0xff
		procs := c.N >> 16 & 0xff
		if g < 2 {
			g = 2
		}
		lines, e := runChild("conc", childJob{Inputs: hexAll(seq), G: g, Rounds: 3, Yield: yield, Procs: procs})
		if e != "" {
			if strings.HasPrefix(e, "INFRA") {
				return Res{Class: "infra_problem"}
			}
			return fail("%d goroutines over %d shared inputs: %s", g, len(seq), e)
		}
		if len(lines) != len(seq) {
			return fail("concurrent child returned %d results for %d inputs", len(lines), len(seq))
		}
		for i, x := range seq {
			want, e := freshOf(x)
			if e != "" {
				return Res{Class: "infra_problem"}
			}
			if lines[i] != want {
				return fail("%d goroutines: result of %q is %s, in a fresh process it is %s", g, x, lines[i], want)
			}
		}
		return Res{NT: true, Class: fmt.Sprintf("conc_g%d", g)}
	}
	return Res{}
}

// universe of inputs: fragments, corpus, attack and benign members, XSS vectors
func c05Universe() []string {
	seen := map[string]bool{}
	var u []string
	add := func(s string) {
		if !seen[s] && len(s) < 4000 {
			seen[s] = true
			u = append(u, s)
		}
	}
	for i, s := range corp().SQL {
		if i%3 == 0 {
			add(s)
		}
	}
	for i, s := range corp().HTML {
		if i%2 == 0 {
			add(s)
		}
	}
	att := attackInputs()
	for i := 0; i < len(att); i += len(att)/120 + 1 {
		add(att[i])
	}
	vec := xssVectors()
	for i := 0; i < len(vec); i += len(vec)/120 + 1 {
		add(vec[i])
	}
	for _, s := range []string{"", "hello world", "foo 12 bar", "alice@example.com", "3.14", "1 union", "foo--", "1c", "x' or 1=1 -- sp_password", "1 --x\n or 1=1", "\" or \"\"=\"", "<a href=&#", "<![CDATA[]]]", "<%>%%>-", "q'\xe9a\xe9' or 1=1", "@a\x00union select 1", "''''''''", strings.Repeat("((1", 40), strings.Repeat("<a ", 40)} {
		add(s)
	}
	// near-duplicate pairs with different results (a lossy cache key - lower-cased, sampled,
	// truncated - makes the second of a pair inherit the first one's answer), at lengths
	// around 32, 64, 128 and 256 bytes
	pad := func(s string, n int) string {
		for len(s) < n {
			s += " lorem ipsum dolor"
		}
		return s
	}
	for _, n := range []int{0, 32, 44, 64, 73, 130, 260} {
		for _, pr := range [][2]string{
			{"administrator_account_name -- sp_password", "administrator_account_name -- SP_PASSWORD"},
			{"1 or \\N is null and 'aaaaaaaaaaaaaaaaaaaaaaaaaaaa'='a'", "1 or \\n is null and 'aaaaaaaaaaaaaaaaaaaaaaaaaaaa'='a'"},
			{"$tag$ x $tag$ union select 1 from dual where 1=1", "$tag$ x $TAG$ union select 1 from dual where 1=1"},
			{"my comment was: aaaa<script>, ok", "my comment was: aaaa script>, ok"},
			{"my comment was: aaaa<script>, ok", "my comment was: aaab<script>, ok"},
			{"the value 1 union select password from users", "the value 1 onion select password from users"},
			{"please see <a href=javascript:alert(1)>this</a>", "please see <a href=javascripx:alert(1)>this</a>"},
			{"x' or 1=1 -- and some more text to make it long", "x  or 1=1 -- and some more text to make it long"},
			{"<img src=x onerror=alert(1) alt='a long description'>", "<img src=x onerror alert(1) alt='a long description'>"},
		} {
			add(pad(pr[0], n))
			add(pad(pr[1], n))
		}
	}
	for _, q := range []string{"q'(report]' or 1=1 -- for the third quarter)'", "q'[a]' or 1=1", "nq'{x}' union select 1", "q'!a!' or 1=1 -- ", "q'<a>' or 1=1", "q'(a)' or q'[b]'='b'", "Q'|x|' or 1=1", "q'\xe9a\xe9' or 1=1", "1 or q'(a))' union select 1", "q'#a#'", "nq'(abc)'='abc'", "q'(a", "x' or q'[z]'=q'(z)' -- "} {
		add(q)
	}
	for _, s := range []string{"hello </b", "</a onclick=alert(1)>", "</a x", "x </", "</p ", "</>", "<a title=\"><script>\"></b", "<script>", "<script>alert(1)</script>", "<iframe>", "<xss>", "<style>", "<object>", "<a b='", "<!--", "<a href="} {
		add(s)
	}
	long := strings.Repeat("abcdefghij", 120)
	for _, s := range []string{"<a href=\"http://example.com/" + long + "\">", "<a href=\"javascript:alert(1)//" + long + "\">", "<img src='" + long + "javascript:'>", "<a href=\"" + long + "\">x</a>", "<form action='data:" + long + "'>",
		"x' or '" + long + "'='" + long, "1 union select '" + long + "'", long + " -- sp_password",
		"<animate attributeName=\"opacity\" dur=\"2s\"/>", "<set attributeName=x to=y>", "<animate attributename=onclick>", "<svg><animate attributeName='href' values='x'/></svg>"} {
		add(s)
	}
	// pairs that collide under 32-bit FNV-1a / FNV-1 / CRC-32 at equal length (testdata/collisions.json)
	for _, cp := range loadCollisions() {
		add(cp.A)
		add(cp.B)
		if strings.HasPrefix(cp.A, "javascript:") {
			add("<a href=\"" + cp.A + "\">")
			add("<a href=\"" + cp.B + "\">")
		}
	}
	// inputs on which two or more of the five parsing passes report SQLi with different fingerprints:
	// the reported fingerprint then depends on the order in which the passes are tried, so an order
	// that is not fixed (map iteration, select, goroutine completion) shows as a changing answer
	multi := 0
	parts := []string{"' or 1=1 -- ", "\" or \"a\"=\"a", "' union select 1 -- ", "\" union select 1,2 #", "1 or 1=1", "' or ''='", "\" or 1 like 1 --", "') or ('a'='a", "\") or (\"a\"=\"a", "1; drop table t", "' and sleep(1) #", "\" and 1 in (1) --"}
	for _, a := range parts {
		for _, b := range parts {
			if multi >= 60 {
				break
			}
			in := a + " " + b
			fps := map[string]bool{}
			for _, m := range passModes {
				if _, fp, _, verdict, _ := lib.VFingerprint(in, m); verdict {
					fps[fp] = true
				}
			}
			if len(fps) >= 2 {
				add(in)
				multi++
			}
		}
	}
	// a token directly followed by each byte class and a further name byte (a scanner table that is adjusted "for this
	// call" and keeps the change poisons the calls after it), and URL values starting with every letter
	for _, atom := range []string{"@a", "@@a", "`a`", "'a'", "1", "a", "$a$", "1.", "0x1", "q'(a)'"} {
		for _, sym := range gen.AlphaSQL {
			add(atom + sym + "1")
			add("1;select " + atom + sym)
		}
	}
	for c := byte('a'); c <= 'z'; c++ {
		add("<a href=\"" + string([]byte{c}) + "ocha:x\">")
		add("<img src=" + string([]byte{c}) + "ivescript:x>")
	}
	for _, f := range gen.FragSQL {
		add("1 " + f + " 1")
	}
	for _, f := range gen.FragHTML {
		add("<a " + f + ">")
	}
	sort.Strings(u)
	return u
}

func TestC05(t *testing.T) {
	c := NewCheck(t, "C05", "result(x) = (IsSQLi verdict, fingerprint, IsXSS verdict); fresh(x) = result of x as the very first library call of a brand-new process (one child process per x); kind history: an in-process sequential call history over the universe with repeats, every observation == fresh(x); kind order: a history evaluated by a brand-new process, every position == fresh(x); kind conc: G in {2,8,32,128} goroutines started before any library call of a new process walk rotations of shared inputs for 3 rounds under the race detector, with Gosched/GOMAXPROCS variation, all observations == fresh(x) and no race report; non-trivial = a history that repeats an input after a different one / an order of >= 2 inputs / every concurrent run; histories deduplicated by FNV-64")
	c.rec.Assume = []string{"test binary built with -race", "interleavings are sampled, not enumerated: a race needing a rare schedule can be missed", "the static-audit clause of the property is outside this technique and is not used"}
	c.hangSec = 900
	defer c.Finish()
	U := c05Universe()
	c.rec.Extra["universe_inputs"] = len(U)

	// fresh-process oracle for the whole universe (one process per input)
	p := c.rec.NewPart("fresh_oracle", fmt.Sprintf("one brand-new process per input (%d inputs): its first library call", len(U)), false, true, "")
	var infra int64
	c.ParRange(p, int64(len(U)), func(w *Worker, i int64) {
		if _, e := freshOf(U[i]); e != "" {
			if strings.HasPrefix(e, "INFRA") {
				infra++
				return
			}
			c.rec.Violate(ev.Case{Kind: "order", In: U[i]}, "fresh-process evaluation failed: "+e)
		}
		w.l.Count(ev.Case{Kind: "fresh", In: U[i]}, true, "fresh_process")
	})
	if c.rec.Stopped() {
		return
	}

	join := func(xs []string) string { return strings.Join(xs, histSep) }

	// (1) order children: rotations / reversals / rapid-drawn permutations of the universe
	// very large inputs (a size-dependent code path - chunking, a parallel scan, a different buffer - shows only
	// there): each evaluated twice in this race-enabled process and compared with its fresh-process result
	var big []string
	for _, n := range []int{65536 + 1, 1<<20 + 1, 4<<20 + 33} {
		pad := strings.Repeat("lorem ipsum ", n/12+1)[:n]
		for _, v := range []string{"\" onmouseover=alert(1) x=\"", "' onerror=alert(1) x='", "` onload=alert(1) x=`", " onclick=alert(1) ", "<script>alert(1)</script>", "' or 1=1 -- ", "\" or \"a\"=\"a", " union select password from users"} {
			big = append(big, pad+v)
		}
	}
	p = c.rec.NewPart("large_inputs", fmt.Sprintf("%d inputs of 64 kB, 1 MB and 4 MB whose attack shows in one context only: two consecutive in-process evaluations == fresh(x)", len(big)), false, true, "")
	c.ParRange(p, int64(len(big)), func(w *Worker, i int64) {
		w.JudgeSlow(ev.Case{Kind: "history", In: big[i] + histSep + big[i]})
	})
	p = c.rec.NewPart("order_children", "brand-new processes evaluating the whole universe in rotated, reversed and stride-permuted orders; two-step histories (both orders) of input pairs that collide under FNV-1a-32 / FNV-1-32 / CRC-32 at equal length", false, true, "")
	var orders []ev.Case
	nOrd := pick(12, 64)
	for k := 0; k < nOrd; k++ {
		o := make([]string, len(U))
		stride := 2*k + 1
		for stride%len(U) == 0 || gcd(stride, len(U)) != 1 {
			stride += 2
		}
		for i := range U {
			o[i] = U[(i*stride+k*17)%len(U)]
		}
		if k%3 == 2 {
			for i, j := 0, len(o)-1; i < j; i, j = i+1, j-1 {
				o[i], o[j] = o[j], o[i]
			}
		}
		orders = append(orders, ev.Case{Kind: "order", In: join(o)})
	}
	for _, cp := range loadCollisions() {
		orders = append(orders, ev.Case{Kind: "order", In: join([]string{cp.B, cp.A})}, ev.Case{Kind: "order", In: join([]string{cp.A, cp.B})})
		if strings.HasPrefix(cp.A, "javascript:") {
			wa, wb := "<a href=\""+cp.A+"\">", "<a href=\""+cp.B+"\">"
			orders = append(orders, ev.Case{Kind: "order", In: join([]string{wb, wa})}, ev.Case{Kind: "order", In: join([]string{wa, wb})})
		}
	}
	c.ParRange(p, int64(len(orders)), func(w *Worker, i int64) { w.JudgeSlow(orders[i]) })

	// (2) sequential histories, in-process, rapid state machine
	p = c.rec.NewPart("rapid_histories", "rapid state machine: actions sqli+xss(x), burst(x,n), revisit(earlier x); the history is judged as a whole against fresh(x)", true, false, "")
	c.Rapid(p, 1, pick(6000, 60000), func(rt *rapid.T, sh int) ev.Case {
		var h []string
		rt.Repeat(map[string]func(*rapid.T){
			"call": func(t *rapid.T) { h = append(h, rapid.SampledFrom(U).Draw(t, "x")) },
			"burst": func(t *rapid.T) {
				x := rapid.SampledFrom(U).Draw(t, "x")
				for n := rapid.IntRange(2, 6).Draw(t, "n"); n > 0; n-- {
					h = append(h, x)
				}
			},
			"revisit": func(t *rapid.T) {
				if len(h) == 0 {
					t.Skip("empty history")
				}
				h = append(h, h[rapid.IntRange(0, len(h)-1).Draw(t, "i")])
			},
		})
		return ev.Case{Kind: "history", In: join(h)}
	})

	// (3) concurrent schedules in fresh processes
	p = c.rec.NewPart("concurrent_children", "G in {2,8,32,128} goroutines x Gosched period x GOMAXPROCS in fresh race-enabled processes over rapid-drawn shared input subsets", true, false, "")
	c.Rapid(p, 1, pick(72, 600), func(rt *rapid.T, sh int) ev.Case {
		g := rapid.SampledFrom([]int{2, 8, 32, 128}).Draw(rt, "goroutines")
		yield := rapid.SampledFrom([]int{0, 1, 3, 7}).Draw(rt, "yield")
		procs := rapid.SampledFrom([]int{0, 2, 4, 16}).Draw(rt, "procs")
		n := rapid.IntRange(8, 96).Draw(rt, "n")
		off := rapid.IntRange(0, len(U)-1).Draw(rt, "off")
		stride := 2*rapid.IntRange(0, 50).Draw(rt, "stride") + 1
		for gcd(stride, len(U)) != 1 {
			stride += 2
		}
		xs := make([]string, n)
		for i := range xs {
			xs[i] = U[(off+i*stride)%len(U)]
		}
		return ev.Case{Kind: "conc", N: g | yield<<8 | procs<<16, In: join(xs)}
	})

	// (4) in-process concurrency under the race detector (this process has made calls already)
	p = c.rec.NewPart("concurrent_in_process", "64 goroutines x whole universe x 2 rounds in this (race-enabled) process, every observation == fresh(x)", false, true, "")
	var wg sync.WaitGroup
	var bad sync.Map
	for g := 0; g < 64; g++ {
		wg.Add(1)
		go func(g int) {
			defer wg.Done()
			for r := 0; r < 2; r++ {
				for k := range U {
					x := U[(k*(2*g+1)+g)%len(U)]
					want, _ := freshOf(x)
					if got := resultOf(x); got != want {
						bad.Store(x, got+" vs fresh "+want)
					}
				}
			}
		}(g)
	}
	wg.Wait()
	l := c.rec.Local(p)
	l.Count(ev.Case{Kind: "inproc", In: "64x" + fmt.Sprint(len(U))}, true, "conc_in_process")
	l.Count(ev.Case{Kind: "inproc", In: "universe"}, true, "conc_in_process")
	l.Flush()
	bad.Range(func(k, v interface{}) bool {
		c.rec.Violate(ev.Case{Kind: "history", In: k.(string)}, "concurrent in-process call returned "+v.(string))
		return false
	})
	if infra > 0 {
		c.rec.Extra["infra_child_start_failures"] = infra
	}
	c.rec.Require("fresh_process", "order", "history", "conc_g2", "conc_g8", "conc_g32", "conc_g128", "conc_in_process")
}

func gcd(a, b int) int {
	for b != 0 {
		a, b = b, a%b
	}
	return a
}
