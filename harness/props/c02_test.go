package props

import (
	"bytes"
	"encoding/hex"
	"fmt"
	"os"
	"os/exec"
	"runtime/debug"
	"strconv"
	"strings"
	"testing"
	"time"

	lib "github.com/corazawaf/libinjection-go"
	"pgregory.net/rapid"
	"verifh/ev"
	"verifh/gen"
)

// C02 - IsXSS is total: returns for every byte string, never panics or overflows the stack.

func init() { registry["C02"] = c02Oracle }

// stackChild: role of the test binary when VERIF_CHILD=stack. Stack exhaustion is a
// fatal error that recover() cannot catch, so repetition inputs run here, with the
// goroutine stack limited to 16 MB (per-byte recursion needs > 32 MB at 1 MB input).
func stackChild() {
	mb, _ := strconv.Atoi(os.Getenv("VERIF_STACK_MB"))
	if mb <= 0 {
		mb = 16
	}
	debug.SetMaxStack(mb << 20)
	unit, _ := hex.DecodeString(os.Getenv("VERIF_UNIT"))
	n, _ := strconv.Atoi(os.Getenv("VERIF_COUNT"))
	s := strings.Repeat(string(unit), n/max(1, len(unit)))
	r1 := lib.IsXSS(s)
	r2, _ := lib.IsSQLi(s)
	fmt.Printf("child-ok %v %v\n", r1, r2)
	os.Exit(0)
}

func runStackChild(unit string, n int, stackMB int) (ok bool, out string) {
	cmd := exec.Command(os.Args[0], "-test.run", "^$")
	cmd.Env = append(os.Environ(), "VERIF_CHILD=stack", "VERIF_UNIT="+hex.EncodeToString([]byte(unit)), "VERIF_COUNT="+strconv.Itoa(n), "VERIF_STACK_MB="+strconv.Itoa(stackMB))
	var buf bytes.Buffer
	cmd.Stdout, cmd.Stderr = &buf, &buf
	done := make(chan error, 1)
	if err := cmd.Start(); err != nil {
		return true, "cannot start child: " + err.Error() // infrastructure, not a verdict
	}
	go func() { done <- cmd.Wait() }()
	select {
	case err := <-done:
		o := buf.String()
		if err == nil && strings.Contains(o, "child-ok") {
			return true, ""
		}
		if len(o) > 400 {
			o = o[:400]
		}
		return false, fmt.Sprintf("child process died (%v): %s", err, strings.TrimSpace(o))
	case <-time.After(120 * time.Second):
		cmd.Process.Kill()
		return false, "child did not finish within 120 s"
	}
}

func c02Oracle(c ev.Case) Res {
	switch c.Kind {
	case "stack":
		ok, msg := runStackChild(c.In, c.N, 16)
		if !ok {
			return fail("unit %q repeated to %d bytes: %s", c.In, c.N, msg)
		}
		return Res{NT: true, Class: "stack_probe"}
	case "long":
		s := strings.Repeat(c.In, c.N/max(1, len(c.In))) + c.In2
		lib.IsXSS(s)
		return Res{NT: true, Class: "long"}
	}
	s := c.In
	v := lib.IsXSS(s)
	nt := strings.ContainsAny(s, "<='\"`")
	cls := "returns_false"
	if v {
		cls = "returns_true"
	}
	return Res{NT: nt, Class: cls}
}

func c02Case(s string) ev.Case { return ev.Case{Kind: "call", In: s} }

var htmlHostile = []string{"<![CDATA[", "<![CDATA[]", "<![CDATA[]]", "<![CDATA[]]]", "<%", "<%%", "<%>%", "<!--", "<!---", "<!---\x00", "<!--\x00-", "<!---!", "<!", "<?", "<!doctype", "<!DOCTYPE ", "&#", "&#x", "&#x6", "&#1", "<", "</", "</a", "<a", "<a ", "<a b", "<a b=", "<a b='", "<a b=\"", "<a b=`", "<a/", "<a b/", "<a\x00", "<\x00", "=", "='", "on", "href=", "href=&#", "href=&#x", "href=&#X", "style=", "<?xml", "<!ENTITY", "<!--[if", "<?import", "`", "'", "\""}

func TestC02(t *testing.T) {
	c := NewCheck(t, "C02", "cases are byte strings passed to IsXSS (all five contexts); the oracle is that the call returns (panic caught by recover; no return within 60 s reported by a watchdog); kind stack: a unit repeated to 1 MB (thorough: singles to 10 MB) evaluated in a child process whose goroutine stack is limited to 16 MB, child death = violation; enumerated parts duplicate-free, random parts deduplicated by FNV-64; non-trivial = input contains '<', '=' or a quote (can leave the data state); every stack probe is non-trivial")
	c.rec.Assume = []string{"termination decided by a watchdog, not by a termination argument", "stack exhaustion detected through debug.SetMaxStack(16 MB) in a child process: per-byte recursion needs > 32 MB at 1 MB input"}
	defer c.Finish()
	judge := func(w *Worker, s string) { w.Judge(c02Case(s)) }

	// stack probes: every single symbol and state-changing pairs repeated to 1 MB
	var probes []ev.Case
	for _, a := range gen.AlphaHTML {
		probes = append(probes, ev.Case{Kind: "stack", In: a, N: 1 << 20})
		if thorough() {
			probes = append(probes, ev.Case{Kind: "stack", In: a, N: 10 << 20})
		}
	}
	pairs := []string{"<a", "a ", "a/", "/a", "a=", "=a", "= ", " =", "='", "'=", "=\"", "=`", "a>", "><", "</", "/>", "<!", "!-", "--", "->", "<%", "%>", "%%", "<?", "?>", "]]", "]>", "&#", "#x", "x;", ";&", "a\x00", "\x00a", "\x00=", "/ ", " /", "//", "<<", ">>", "''", "\"\"", "``", "'>", "\">", "`>", " a", "a'", "a\"", "<\x00", "\x00<", "=>", "-!", "!>", "-\x00", "a=b ", "<a ", "<a/", "<a b=c ", "<!---", "x=`",
		"/\t", "/\r", "/\f", "/\v", "/\n", "\f/", "\v/", "a\f", "a\v", "=\f", "=\v", "\f=", "\v=", "'\f", "\"\v", "<a\f", "<a\v", "\fa", "\va", "a=b\f", "a=b\v", "a='b'\f", "/\f/", "\x00/", "/\x00\f"}
	if thorough() {
		pairs = nil
		for _, a := range gen.AlphaHTML {
			for _, b := range gen.AlphaHTML {
				pairs = append(pairs, a+b)
			}
		}
		pairs = append(pairs, "a=b ", "<a ", "<a/", "<a b=c ", "<!---", "x=`")
		for _, ws := range []string{"\t", "\r", "\f", "\v"} {
			for _, a := range gen.AlphaHTML {
				pairs = append(pairs, a+ws, ws+a)
			}
		}
	}
	// closed and empty constructs, and every pair of markup atoms: a scanner that continues with the next
	// construct by calling itself instead of returning needs one frame per construct
	units := []string{"<![CDATA[]]>", "<![CDATA[a]]>", "<!---->", "<!--a-->", "<!--a--!>", "<%%>", "<%a%>", "<?a>", "<??>", "<!a>", "<!>", "</>", "</a>", "<a>", "<a/>", "<a b>", "<a b=c>", "<a b=''>", "<a b='c'>", "<a b=\"c\">", "<a b=`c`>",
		"<!doctype a>", "<!doctype>", "&#x6a;", "&#106", "&;", "]]>", "-->", "<a b= >", "<a =>", "<a b=c/>", "<a\x00>", "</a b=c>", "<a b='>'>", "a=b ", "a='b' ", "<a b=c d=e>", "<![CDATA[]]>a", "<!---->a", "<%%>a", "<a></a>", "<a>b</a>"}
	for _, a := range htmlAtoms {
		for _, b := range htmlAtoms {
			units = append(units, a+b)
		}
	}
	// construct openers that can nest (an attribute value or a body that holds the next opener), alone and in pairs:
	// a classifier that re-enters itself for a nested value needs one frame per level
	nest := []string{"<a b=", "<a/b=", "<a b='", "<a b=\"", "<a b=`", "<!--", "<![CDATA[", "<a href=", "<a style=", "<a ", "</a ", "<%", "<?", "<!", "=<", "'<", "x=<a ", "<a b=c ", "<a\tb=", "<a b =", "<a b= "}
	for _, a := range nest {
		units = append(units, a)
		for _, b := range nest {
			units = append(units, a+b)
		}
	}
	seenUnit := map[string]bool{}
	for _, u := range pairs {
		seenUnit[u] = true
	}
	for _, a := range gen.AlphaHTML {
		seenUnit[a] = true
	}
	for _, u := range units {
		if !seenUnit[u] {
			seenUnit[u] = true
			pairs = append(pairs, u)
		}
	}
	for _, u := range pairs {
		probes = append(probes, ev.Case{Kind: "stack", In: u, N: 1 << 20})
	}
	p := c.rec.NewPart("stack_probes", fmt.Sprintf("%d repetition inputs (single symbols and pairs over the HTML alphabet, closed and empty constructs, every pair of markup atoms) at 1 MB in child processes with a 16 MB stack limit", len(probes)), false, true, "")
	c.ParRange(p, int64(len(probes)), func(w *Worker, i int64) { w.JudgeSlow(probes[i]) })

	L := pick(4, 5)
	p = c.rec.NewPart("bytes_exhaustive", fmt.Sprintf("every string of length 0..%d over the %d-symbol HTML alphabet", L, len(gen.AlphaHTML)), false, true, "")
	c.EnumSeq(p, gen.AlphaHTML, "", 0, L, judge)
	Lc := pick(6, 7)
	p = c.rec.NewPart("bytes_core_exhaustive", fmt.Sprintf("every string of length %d..%d over the %d-symbol core alphabet", L+1, Lc, len(gen.CoreHTML)), false, true, "")
	c.EnumSeq(p, gen.CoreHTML, "", L+1, Lc, judge)
	p = c.rec.NewPart("atoms_exhaustive", "every concatenation of 1..3 markup atoms", false, true, "")
	c.EnumSeq(p, htmlAtoms, "", 1, 3, judge)

	var tr []string
	tr = append(tr, htmlTruncationInputs()...)
	long := strings.Repeat("a", 45)
	for _, h := range htmlHostile {
		for _, ctx := range []string{"", "x", ">", "'>", "\">", "`>", " ", "a=", "a='", "<a ", "-->", "</b>", "<a b='c' "} {
			tr = append(tr, ctx+h, ctx+h+long, ctx+long+h, ctx+h+" ", ctx+h+h, ctx+h+"]", ctx+h+"%", ctx+h+"-")
		}
	}
	p = c.rec.NewPart("truncations", "every prefix of every markup construct and corpus input; hostile construct openers at end of input behind 13 contexts", false, false, "")
	c.ParRange(p, int64(len(tr)), func(w *Worker, i int64) { judge(w, tr[i]) })

	hb := htmlBoundaryInputs()
	p = c.rec.NewPart("boundary_inputs", "length-, count- and code-point boundary inputs (see C07); case-folding code points are NOT excluded here", false, true, "")
	c.ParRange(p, int64(len(hb)), func(w *Worker, i int64) { judge(w, hb[i]) })
	// comment bodies over case-folding code points and marker letters, exhaustive
	p = c.rec.NewPart("source_bytes", fmt.Sprintf("bytes the XSS source files write as literals and the byte-class alphabet lacks, inserted at every position of every string of 0..%d core symbols, and behind every hostile construct opener at the end of the input", 4), false, true, "")
	c.srcByteInputs(p, extraBytes(srcDict().HTMLBytes, gen.AlphaHTML), gen.CoreHTML, 4, htmlHostile, judge)
	p = c.rec.NewPart("source_dictionary", "construct openers x sequences of 1..5 symbols around each word that occurs as a literal in the XSS source files (see C07)", false, true, "")
	c.htmlDictInputs(p, judge)
	p = c.rec.NewPart("unicode_fold_comments", "5 comment openers x every body of length 0..5 over {U+0131, U+017F, U+1FBE, a, [, i}", false, true, "")
	c.EnumSeq(p, []string{"\xc4\xb1", "\xc5\xbf", "\xe1\xbe\xbe", "a", "[", "i"}, "", 0, 5, func(w *Worker, s string) {
		for _, op := range []string{"<!--", "<!", "<?", "<%", "</ "} {
			judge(w, op+s)
			judge(w, op+s+">")
		}
	})

	p = c.rec.NewPart("rapid_fragments", "rapid over the HTML fragment grammar", true, false, "")
	g := gen.HTMLInput()
	c.Rapid(p, 8, pick(60000, 900000), func(rt *rapid.T, sh int) ev.Case { return c02Case(g.Draw(rt, "in")) })
	p = c.rec.NewPart("rapid_bytes", "rapid: arbitrary byte strings up to 48 bytes", true, false, "")
	bg := gen.Bytes(48)
	c.Rapid(p, 4, pick(50000, 700000), func(rt *rapid.T, sh int) ev.Case { return c02Case(bg.Draw(rt, "in")) })
	p = c.rec.NewPart("rapid_long_inputs", "rapid: fragment pair repeated to 4..64 kB plus a hostile tail", true, false, "")
	c.Rapid(p, 4, pick(150, 3000), func(rt *rapid.T, sh int) ev.Case {
		u := rapid.SampledFrom(gen.FragHTML).Draw(rt, "unit") + rapid.SampledFrom(gen.FragHTML).Draw(rt, "unit2")
		return ev.Case{Kind: "long", In: u, N: rapid.IntRange(4<<10, 64<<10).Draw(rt, "n"), In2: rapid.SampledFrom(htmlHostile).Draw(rt, "tail")}
	})
	p = c.rec.NewPart("rapid_corpus_mutation", "rapid: repository HTML fixtures and payloads with 1-4 edits", true, false, "")
	c.Rapid(p, 4, pick(15000, 300000), func(rt *rapid.T, sh int) ev.Case {
		return c02Case(gen.Mutate(rt, rapid.SampledFrom(corp().HTML).Draw(rt, "base"), gen.FragHTML))
	})
	c.rec.Require("returns_true", "returns_false", "stack_probe")
}
