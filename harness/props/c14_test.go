package props

import (
	"fmt"
	"sort"
	"strings"
	"sync"
	"testing"

	lib "github.com/corazawaf/libinjection-go"
	"pgregory.net/rapid"
	"verifh/ev"
	"verifh/gen"
)

// C14 - plain words and numbers are never reported as SQLi.

func init() { registry["C14"] = c14Oracle }

// keyword components: every key and every space-separated component of a key (upper case)
var (
	kwCompOnce sync.Once
	kwCompVal  map[string]bool
)

func kwComps() map[string]bool {
	kwCompOnce.Do(func() {
		m := map[string]bool{}
		for k := range kwTab() {
			m[k] = true
			for _, part := range strings.Fields(k) {
				m[part] = true
			}
		}
		kwCompVal = m
	})
	return kwCompVal
}

func isBenignWord(w string) bool {
	if w == "" || !(gen.IsLetter(w[0]) || w[0] == '_') {
		return false
	}
	for i := 0; i < len(w); i++ {
		if !(gen.IsLetter(w[i]) || w[i] == '_' || (w[i] >= '0' && w[i] <= '9')) {
			return false
		}
	}
	return !kwComps()[gen.UpperASCII(w)]
}

func isNumber(w string) bool {
	if w == "" {
		return false
	}
	for i := 0; i < len(w); i++ {
		if w[i] < '0' || w[i] > '9' {
			return false
		}
	}
	return true
}

// inDomain decides membership in L(G_benign) for the four shapes; the oracle refuses
// to judge anything else (so a replay file cannot smuggle in a foreign input).
func inDomain(kind, s string) bool {
	switch kind {
	case "words":
		if s == "" {
			return false
		}
		for _, w := range strings.Split(s, " ") {
			if !isBenignWord(w) && !isNumber(w) {
				return false
			}
		}
		return true
	case "email":
		at := strings.Split(s, "@")
		if len(at) != 2 {
			return false
		}
		for _, x := range strings.Split(at[0], ".") { // local part: benign words joined by single dots
			if !isBenignWord(x) {
				return false
			}
		}
		d := strings.Split(at[1], ".")
		if len(d) < 2 {
			return false
		}
		for _, x := range d {
			if !isBenignWord(x) {
				return false
			}
		}
		return true
	case "decimal":
		d := strings.Split(s, ".")
		return len(d) == 2 && isNumber(d[0]) && isNumber(d[1])
	case "sentence":
		// words/numbers separated by single spaces, each optionally followed by one of , . ! ? : ;
		if s == "" {
			return false
		}
		for _, w := range strings.Split(s, " ") {
			w = strings.TrimRight(w, ",.!?:;")
			if len(w) == 0 {
				return false
			}
			if !isBenignWord(w) && !isNumber(w) {
				return false
			}
		}
		for i := 0; i+1 < len(s); i++ {
			if strings.IndexByte(",.!?:;", s[i]) >= 0 && s[i+1] != ' ' {
				return false // punctuation is followed by a space or ends the input
			}
		}
		return true
	case "classes":
		return true
	}
	return false
}

func c14Oracle(c ev.Case) Res {
	if c.Kind == "classes" {
		// the token-class abstraction: no fingerprint made only of n and 1 is blacklisted
		if kwTab()["0"+gen.UpperASCII(c.In)] == 'F' {
			return fail("the fingerprint %q (bare words and numbers only) is in the blacklist", c.In)
		}
		return Res{NT: len(c.In) >= 2, Class: "class_string"}
	}
	if !inDomain(c.Kind, c.In) {
		return Res{Class: "outside_domain"}
	}
	b, f := lib.IsSQLi(c.In)
	if b || f != "" {
		return fail("benign %s input reported as SQLi (%v,%q)", c.Kind, b, f)
	}
	return Res{NT: strings.ContainsAny(c.In, " @."), Class: "shape_" + c.Kind}
}

var benignWords = []string{"a", "e", "n", "x", "q", "u", "b", "n1", "x1", "e1", "q1", "foo", "bar", "hello", "world", "Alice", "bob", "my_name", "_x", "A1b2", "colour", "zebra", "qwerty", "nq", "uu", "ee",
	"thisisaverylongwordofmorethanthirtyonebytes", "abcdefghijklmnopqrstuvwxyzabcde", "abcdefghijklmnopqrstuvwxyzabcd", "abcdefghijklmnopqrstuvwxyzabcdef", "name", "street", "city", "zip", "phone", "email", "com", "org", "example", "www"}
var benignNumbers = []string{"0", "1", "12", "007", "2024", "1234567890", "1234567890123456789012345678901234567890", "99999999999999999999999999999999"}

func filteredWords() (ok []string, rejected int) {
	for _, w := range benignWords {
		if isBenignWord(w) {
			ok = append(ok, w)
		} else {
			rejected++
		}
	}
	return
}

// nearKeywords: benign identifiers one edit away from a keyword-table word (digit or
// letter substituted, character appended / prepended / dropped / doubled). A sloppy
// look-up (prefix match, lossy hashing, folding digits into letters) turns exactly
// these into keywords.
func nearKeywords() []string {
	seen := map[string]bool{}
	var out []string
	add := func(w string) {
		if !seen[w] && len(w) <= 24 && isBenignWord(w) {
			seen[w] = true
			out = append(out, w)
		}
	}
	var keys []string
	for k := range kwTab() {
		ok := len(k) >= 2 && len(k) <= 10
		for i := 0; i < len(k) && ok; i++ {
			ok = k[i] >= 'A' && k[i] <= 'Z'
		}
		if ok {
			keys = append(keys, k)
		}
	}
	sort.Strings(keys)
	for _, k := range keys {
		lk := gen.LowerASCII(k)
		add(lk + "1")
		add(lk + "_")
		add("_" + lk)
		add("x" + lk)
		add(lk + "x")
		add(lk + lk[len(lk)-1:])
		add(lk[:len(lk)-1])
		add(lk[1:])
		if len(lk) <= 6 {
			for i := 1; i < len(lk); i++ {
				for d := byte('0'); d <= '9'; d++ {
					add(lk[:i] + string([]byte{d}) + lk[i+1:])
				}
			}
		}
	}
	// compound table keys written as one identifier (blank replaced by '_' or dropped, words doubled)
	var comp []string
	for k := range kwTab() {
		if strings.Contains(k, " ") && kwTab()[k] != 'F' {
			comp = append(comp, k)
		}
	}
	sort.Strings(comp)
	for _, k := range comp {
		lk := gen.LowerASCII(k)
		add(strings.ReplaceAll(lk, " ", "_"))
		add(strings.ReplaceAll(lk, " ", ""))
		add(strings.ReplaceAll(lk, " ", "__"))
		add("_" + strings.ReplaceAll(lk, " ", "_"))
		add(strings.ReplaceAll(lk, " ", "_") + "_")
		add(strings.ReplaceAll(lk, " ", "1"))
	}
	return out
}

func wordGen(words []string) *rapid.Generator[string] {
	return rapid.Custom(func(t *rapid.T) string {
		for tries := 0; tries < 20; tries++ {
			var w string
			switch rapid.IntRange(0, 3).Draw(t, "wsrc") {
			case 0:
				w = rapid.SampledFrom(words).Draw(t, "w")
			case 1:
				w = rapid.StringMatching(`[A-Za-z_][A-Za-z0-9_]{0,11}`).Draw(t, "w")
			case 2:
				w = rapid.StringMatching(`[a-z]{1,3}`).Draw(t, "w")
			default:
				w = rapid.StringMatching(`[A-Za-z_][A-Za-z0-9_]{25,40}`).Draw(t, "w")
			}
			if isBenignWord(w) {
				return w
			}
		}
		return "foo"
	})
}

func TestC14(t *testing.T) {
	c := NewCheck(t, "C14", "kind classes: every string of 1..5 characters over {n,1} (the fingerprints of bare-word/number runs) must be absent from the blacklist - exhaustive (62 strings); kind words: words ([A-Za-z_][A-Za-z0-9_]*, not a key nor a space-separated component of a key of the keyword table) and unsigned integers joined by single spaces; kinds email (w@w.w), decimal (n.n), sentence (words/numbers with , . ! ? : ; and single spaces); the oracle re-checks domain membership and requires IsSQLi == (false,\"\"); non-trivial = >= 2 tokens (contains a space, @ or .); enumerations duplicate-free, random parts deduplicated by FNV-64")
	c.rec.Assume = []string{"the keyword table is read through VKeywords to define the word family"}
	defer c.Finish()

	// (i) class abstraction, exhaustive
	p := c.rec.NewPart("class_strings_exhaustive", "all 62 strings of length 1..5 over {n,1}", false, true, "2^1+..+2^5")
	c.EnumSeq(p, []string{"n", "1"}, "", 1, 5, func(w *Worker, s string) { w.Judge(ev.Case{Kind: "classes", In: s}) })

	// (ii) every {word,number} sequence of length 1..L over representatives
	words, rej := filteredWords()
	c.rec.Exclude("representative_words_that_are_keyword_components", int64(rej))
	reps := []string{"foo", "thisisaverylongwordofmorethanthirtyonebytes", "e", "n1", "x", "q", "0", "12", "1234567890123456789012345678901234567890"}
	var reps2 []string
	for _, r := range reps {
		if isBenignWord(r) || isNumber(r) {
			reps2 = append(reps2, r)
		}
	}
	L := pick(6, 7)
	p = c.rec.NewPart("sequences_exhaustive", fmt.Sprintf("every space-joined sequence of 1..%d items over %d representatives (short word, 43-byte word, literal-prefix-letter words e n1 x q, numbers 0 12 and a 40-digit number)", L, len(reps2)), false, true, "")
	c.EnumSeq(p, reps2, " ", 1, L, func(w *Worker, s string) { w.Judge(ev.Case{Kind: "words", In: s}) })

	// (iii) pairs and triples over the full word / number lists, and the other shapes
	all := append(append([]string{}, words...), benignNumbers...)
	p = c.rec.NewPart("pairs_triples_exhaustive", fmt.Sprintf("every sequence of 1..3 items over %d words and numbers", len(all)), false, true, "")
	c.EnumSeq(p, all, " ", 1, 3, func(w *Worker, s string) { w.Judge(ev.Case{Kind: "words", In: s}) })
	p = c.rec.NewPart("shapes_exhaustive", "e-mail w@w.w over all word triples (stride), decimal n.n over all number pairs, sentences: pairs of words with each punctuation mark", false, true, "")
	c.ParRange(p, int64(len(words)), func(w *Worker, i int64) {
		a := words[i]
		for _, b := range words {
			for _, d := range []string{"com", "org", "example", "x"} {
				if isBenignWord(d) {
					w.Judge(ev.Case{Kind: "email", In: a + "@" + b + "." + d})
				}
			}
			for _, pm := range []string{",", ".", "!", "?", ":", ";"} {
				w.Judge(ev.Case{Kind: "sentence", In: a + pm + " " + b})
				w.Judge(ev.Case{Kind: "sentence", In: a + " " + b + pm})
				w.Judge(ev.Case{Kind: "sentence", In: a + pm + " 12 " + b + pm})
			}
		}
		for _, x := range benignNumbers {
			for _, y := range benignNumbers {
				if i == 0 {
					w.Judge(ev.Case{Kind: "decimal", In: x + "." + y})
				}
			}
		}
	})

	nk := nearKeywords()
	c.rec.Extra["near_keyword_words"] = len(nk)
	tmpl := []string{"W", "a W b", "1 W 1", "1 W 2 W 3", "abc W def W 7", "page W 20", "W 1", "1 W", "W W", "a W 1 W b"}
	p = c.rec.NewPart("near_keywords_exhaustive", fmt.Sprintf("%d benign identifiers one edit away from a keyword-table word x %d sentence templates", len(nk), len(tmpl)), false, true, "")
	c.ParRange(p, int64(len(nk)), func(w *Worker, i int64) {
		for _, t := range tmpl {
			w.Judge(ev.Case{Kind: "words", In: strings.ReplaceAll(t, "W", nk[i])})
		}
	})

	wc := wordColliders()
	c.rec.Extra["hash_collision_words"] = len(wc)
	p = c.rec.NewPart("hash_collision_identifiers", fmt.Sprintf("%d benign identifiers whose 32-bit hash (FNV-1a, FNV-1, CRC-32, CRC-32C, djb2, djb2-xor, x31, sdbm; of the upper-cased or of the lower-cased word) equals that of one of %d keyword-table words of every token type, found by meeting in the middle at run time, x %d sentence templates", len(wc), len(colliderTargets()), len(tmpl)), false, true, "")
	c.ParRange(p, int64(len(wc)), func(w *Worker, i int64) {
		for _, t := range tmpl {
			w.Judge(ev.Case{Kind: "words", In: strings.ReplaceAll(t, "W", wc[i].Word)})
			w.Judge(ev.Case{Kind: "words", In: strings.ReplaceAll(t, "W", gen.UpperASCII(wc[i].Word))})
		}
	})

	// e-mail addresses with a long dotted local part: a keyword spelled by the tail of a benign word, starting at every
	// offset around the 31/32-byte clip (a word that is cut there leaves the keyword standing alone)
	var mails []string
	for _, kwd := range []string{"or", "and", "union", "select", "like", "in", "is", "not", "having", "limit", "xor", "mod", "div", "between", "null", "true", "all", "as"} {
		for off := 24; off <= 40; off++ {
			for _, wl := range []int{5, 9, 31} {
				var sb strings.Builder
				for sb.Len() < off {
					if n := sb.Len(); n > 0 && (n+1)%(wl+1) == 0 && n+2 < off {
						sb.WriteByte('.')
					} else {
						sb.WriteByte("abcdefghijklmnopqrstuvwxyz"[(sb.Len()*7+wl)%26])
					}
				}
				local := sb.String() + kwd
				for _, dom := range []string{"example.com", "mail.example.org"} {
					if m := local + "@" + dom; inDomain("email", m) {
						mails = append(mails, m)
					}
				}
			}
		}
	}
	p = c.rec.NewPart("long_dotted_emails", fmt.Sprintf("%d e-mail addresses whose dotted local part spells a keyword with the tail of a benign word at every offset 24..40", len(mails)), false, true, "")
	c.ParRange(p, int64(len(mails)), func(w *Worker, i int64) { w.Judge(ev.Case{Kind: "email", In: mails[i]}) })

	// long identifiers of every length 1..80 that end in, start with or contain a keyword
	var longIDs []string
	for n := 1; n <= 80; n++ {
		w := strings.Repeat("a", n)
		u := "max_" + strings.Repeat("b", n)
		for _, kwd := range []string{"limit", "or", "union", "select", "having", "and", "mod", "like", "in", "is", "not"} {
			for _, id := range []string{w + "_" + kwd, w + kwd, kwd + "_" + w, u + "_" + kwd, w[:n/2] + "_" + kwd + "_" + w[n/2:]} {
				if isBenignWord(id) {
					longIDs = append(longIDs, id)
				}
			}
		}
	}
	p = c.rec.NewPart("long_identifiers_exhaustive", fmt.Sprintf("%d identifiers of length 3..170 that end in, begin with or contain a keyword (every length) x 6 templates", len(longIDs)), false, true, "")
	c.ParRange(p, int64(len(longIDs)), func(w *Worker, i int64) {
		for _, t := range []string{"W", "W 25", "25 W", "a W 1", "W W", "1 W 2 W 3"} {
			w.Judge(ev.Case{Kind: "words", In: strings.ReplaceAll(t, "W", longIDs[i])})
		}
	})

	wg := wordGen(words)
	ng := rapid.StringMatching(`[0-9]{1,12}`)
	item := rapid.OneOf(wg, wg, ng)
	p = c.rec.NewPart("rapid_shapes", "rapid: generated words (rejection < 2%, retried inside the generator) and numbers in the four shapes, 1..12 items", true, false, "")
	c.Rapid(p, 8, pick(100000, 1000000), func(rt *rapid.T, sh int) ev.Case {
		switch rapid.IntRange(0, 5).Draw(rt, "shape") {
		case 0:
			return ev.Case{Kind: "email", In: wg.Draw(rt, "a") + "@" + wg.Draw(rt, "b") + "." + wg.Draw(rt, "c")}
		case 1:
			return ev.Case{Kind: "decimal", In: ng.Draw(rt, "a") + "." + ng.Draw(rt, "b")}
		case 2:
			n := rapid.IntRange(1, 10).Draw(rt, "n")
			var sb strings.Builder
			for i := 0; i < n; i++ {
				if i > 0 {
					sb.WriteString(" ")
				}
				sb.WriteString(item.Draw(rt, "item"))
				if rapid.IntRange(0, 3).Draw(rt, "p") == 0 {
					sb.WriteString(rapid.SampledFrom([]string{",", ".", "!", "?", ":", ";"}).Draw(rt, "pm"))
				}
			}
			return ev.Case{Kind: "sentence", In: sb.String()}
		default:
			return ev.Case{Kind: "words", In: strings.Join(rapid.SliceOfN(item, 1, 12).Draw(rt, "items"), " ")}
		}
	})
	c.rec.Require("class_string", "shape_words", "shape_email", "shape_decimal", "shape_sentence")
}
