package props

import (
	"crypto/sha256"
	"encoding/hex"
	"encoding/json"
	"fmt"
	"hash/fnv"
	"os"
	"path/filepath"
	"sort"
	"strings"
	"sync"
	"testing"

	lib "github.com/corazawaf/libinjection-go"
	"pgregory.net/rapid"
	"verifh/ev"
	"verifh/gen"
)

// C03 - canonical SQL injection families are detected in every quoting context.
//
// The grammar is context x payload x tail, with the placeholder \x01 standing for a
// separator. Which (context, payload, tail) triples belong to the grammar was decided
// once, by calibration on the repaired pinned tree (grammars/sqli.json): a triple is
// kept iff every derivation enumerated below is detected. The check never re-calibrates.

func init() { registry["C03"] = c03Oracle }

const sepMark = "\x01"

type sqlGrammar struct {
	CtxNames []string
	Ctx      []string
	CtxClass []string
	Fam      []string // family of each payload
	Pay      []string
	Tails    []string
	Seps     []string
}

func sp(s string) string { return strings.ReplaceAll(s, "~", sepMark) }

func buildSQLGrammar() *sqlGrammar {
	g := &sqlGrammar{}
	addCtx := func(class string, cs ...string) {
		for _, c := range cs {
			g.Ctx = append(g.Ctx, c)
			g.CtxClass = append(g.CtxClass, class)
		}
	}
	addCtx("numeric", "1", "-1", "1.5", "0x1f", "42")
	addCtx("single_quoted", "1'", "x'", "abc'", "'")
	addCtx("double_quoted", "1\"", "x\"", "abc\"", "\"")
	addCtx("long_value_then_quote", "12 Main Street Apt 4'", "the quick brown fox jumps\"", "http://example.com/a/b/c?id=1'", "1,2,3,4,5,6'")
	addCtx("parenthesised", "1)", "1))", "1')", "abc')", "x'))", "1\")", "abc\")")
	addPay := func(fam string, ps ...string) {
		for _, p := range ps {
			g.Pay = append(g.Pay, sp(p))
			g.Fam = append(g.Fam, fam)
		}
	}
	addPay("tautology", "~or~1=1", "~or~'a'='a'", "~or~\"a\"=\"a\"", "~and~1=1", "~or~true", "~or~not~false", "~or~2>1", "||~1=1", "~or~1~in~(1)", "~or~1~is~not~null", "~or~1~between~0~and~2", "~or~'a'='a", "~and~'1'='1", "~or~\"a\"=\"a", "~or~1~like1", "~or~1~like~1", "~or~'a'~like~'a", "~xor~1=1", "~&&~1=1", "~or~1<>2", "~or~1!=2", "~or~1<=>1", "~or~0x31=0x31", "~or~1e0=1", "~or~@a=@a", "~or~user()=user()", "~or~1~not~in~(2)", "~or~(1)=(1)", "~or~1=1~and~2=2")
	addPay("union", "~union~select~1", "~union~all~select~1,2,3", "~union~select~null,null", "~union~select~user()", "~union~select~@@version", "~union~select~*~from~users", "~union~select~password~from~users", "~union~distinct~select~1", "~union~(select~1)", "~union~select~'a','b'", "~union~select~1~from~dual", "~union~select~concat(user,0x3a,pass)~from~t", "~union~select~1~into~outfile~'/tmp/x'", "~union~select~load_file('/etc/passwd')", "~union~select~char(65)", "~union~select~count(*)~from~t", "~union~all~(select~null)", "~union~select~1,2~from~t~where~1=1", "~union~select~1~limit~1", "~union~select~1~order~by~1")
	addPay("stacked", ";~drop~table~users", ";~select~1", ";~insert~into~t~values(1)", ";~update~t~set~a=1", ";~delete~from~t", ";~exec~xp_cmdshell('dir')", ";~shutdown", ";~declare~@a~int", ";~waitfor~delay~'0:0:5'", ";~if~1=1~select~1", ";~select~pg_sleep(5)", ";~create~table~t(a~int)", ";~alter~table~t~add~a~int", ";~truncate~table~t", ";~exec~('x')", ";~select~*~from~t", ";~begin~declare~@a~int~end", ";~set~@a=1", ";~call~p()", ";~grant~all~on~*.*~to~x", ";~if~exists(select~1)~waitfor~delay~'0:0:5'", ";~if~not~exists(select~1)~select~1", ";~if~exists~(select~*~from~t)~drop~table~t")
	addPay("function", "~and~sleep(5)", "~or~sleep(5)", "~or~benchmark(1000000,md5(1))", "~and~extractvalue(1,concat(0x7e,version()))", "~or~pg_sleep(5)", "~and~updatexml(1,concat(0x7e,user()),1)", "~and~(select~1~from~(select~sleep(5))a)", "~or~ascii(substring(user(),1,1))>64", "~and~length(database())>1", "~or~char(65)=char(65)", "~and~load_file('/etc/passwd')", "~procedure~analyse()", "~into~outfile~'/tmp/x'", "~or~exists(select~1)", "~and~1=convert(int,@@version)", "~or~1=cast(1~as~int)", "~and~if(1=1,sleep(5),0)", "~or~(select~count(*)~from~t)>0", "~and~substr(version(),1,1)=5", "~and~ord(mid(user(),1,1))>64", "~or~row(1,1)>(select~1)", "~and~exp(~(select~1))", "~and~md5(1)=md5(1)", "~or~utl_inaddr.get_host_name('x')=1", "~and~dbms_pipe.receive_message('a',5)=1", "~and~case~when~1=1~then~1~else~0~end=1", "~or~coalesce(null,1)=1", "~and~1=(select~1)", "~and~hex(1)=31", "~or~isnull(null)", "~and~user_lock.sleep(5)", "~or~dbms_lock.sleep(5)", "~and~1=user_lock.sleep(5)", "~and~sys.dbms_lock.sleep(5)", "~or~xmltype(1)=1", "~and~ctxsys.drithsx.sn(1,user)=1")
	addPay("combined", "~or~1=1;~waitfor~delay~'0:0:5'", "~or~1=1~order~by~1", "~or~1=1~group~by~1", "~and~1=1~union~select~1", "~or~1=1;~drop~table~users", "~or~1=1~limit~1", "~or~1=1~and~sleep(5)", "~union~select~1;~drop~table~t", "~union~select~1~order~by~1", "~union~select~1~group~by~1", "~or~1=1~procedure~analyse()", "~or~1=1~into~outfile~'x'", "~and~1=1;~select~pg_sleep(5)", "~or~1=1~having~1=1", "~or~'a'='a'~order~by~1", "~or~1=1;~exec~xp_cmdshell('dir')", ";~select~1~order~by~1", ";~select~1~group~by~1", "~union~all~select~1,2~from~t~order~by~1", "~or~1=1~for~update", "~or~1=1~and~2=2~order~by~1", "~or~1=1;~if~1=1~waitfor~delay~'0:0:5'")
	// boolean chains and the arithmetic / unary / parenthesis noise that folding must collapse
	addPay("folding_noise", "~or~1=1~or~((1=1))", "~or~2>1~or~((1=1))", "~or~1<2~and~((1=1))", "~or~1=1~or~(2=2)", "~or~(1=1)~or~(2=2)", "~or~((1=1))", "~and~((1=1))~or~1=1", "~or~1=1~or~2=2~or~3=3", "~or~(1=1~and~(2=2))", "~or~((1))=((1))",
		"~or~1=1~or~((1=1))~or~2=2", "~or~not~((1=2))", "~or~1=(1)~or~((2))=2", "~or~1=+1", "~or~-1=-1", "~or~1=1*1", "~or~(1+1)=2", "~or~1+1=2", "~or~~1=~1", "~or~1=1-0", "~or~!1=!1", "~or~+1=+1~or~-(1)=-(1)", "~or~1=((((1))))", "~or~((((1))))=1", "~and~1=1~and~((2=2))~and~3=3",
		"~or~1~or~((1))", "~or~'a'='a'~or~(('a'='a'))", "~or~1=1~and~(2=2~or~(3=3))")
	addPay("comment_truncation", "--", "--~", "#", "/*", "--~foo", ";--", "/*foo*/", ";#", "--+", "~or~1--", "~--", "~--~", "~#", "~/*", "~--~foo", "~--+", "~;--", "~--~-")
	g.Tails = []string{"", "--", sp("--~"), "#", "/*", ";", sp(";--~"), sp("~--~-"), sp("~or~'1'='1"), sp("~and~'a'='a"), sp("~or~\"1\"=\"1"), "'", "\"", ")", sp("--~x"), "#x", ";--", "/*x"}
	g.Seps = []string{" ", "\t", "\n", "\r", "\v", "\f", "\xa0", "\x00", "/**/", "/*x*/", "  ", " \t\n", "/**/ "}
	return g
}

var sqlG = buildSQLGrammar()

func (g *sqlGrammar) hash() string {
	h := sha256.New()
	for _, l := range [][]string{g.Ctx, g.Pay, g.Fam, g.Tails, g.Seps} {
		for _, s := range l {
			h.Write([]byte(s))
			h.Write([]byte{0xff})
		}
		h.Write([]byte{0xfe})
	}
	return hex.EncodeToString(h.Sum(nil))[:16]
}

func (g *sqlGrammar) nTriples() int { return len(g.Ctx) * len(g.Pay) * len(g.Tails) }

func (g *sqlGrammar) triple(i int) (ci, pi, ti int) {
	ti = i % len(g.Tails)
	i /= len(g.Tails)
	pi = i % len(g.Pay)
	ci = i / len(g.Pay)
	return
}

func (g *sqlGrammar) valid(i int) bool {
	_, pi, ti := g.triple(i)
	return !(g.Fam[pi] == "comment_truncation" && ti != 0)
}

func (g *sqlGrammar) skeleton(i int) string {
	ci, pi, ti := g.triple(i)
	return g.Ctx[ci] + g.Pay[pi] + g.Tails[ti]
}

const (
	nMixed    = 8
	nCaseFix  = 5 // lower, upper, alternating, 2 hash-determined masks
	nDerivPer = 0
)

func h64(parts ...int) uint64 {
	h := fnv.New64a()
	for _, p := range parts {
		h.Write([]byte{byte(p), byte(p >> 8), byte(p >> 16), byte(p >> 24)})
	}
	return h.Sum64()
}

// applySeps replaces the k-th separator mark by seps[choose(k)].
func applySeps(skel string, seps []string, choose func(k int) int) string {
	var sb strings.Builder
	k := 0
	for i := 0; i < len(skel); i++ {
		if skel[i] == sepMark[0] {
			sb.WriteString(seps[choose(k)])
			k++
		} else {
			sb.WriteByte(skel[i])
		}
	}
	return sb.String()
}

// applyCase: mode 0 lower, 1 upper, 2 alternating, 3.. mask from hash; byte-wise.
func applyCase(s string, mode int, salt int) string {
	b := []byte(s)
	k := 0
	for i := range b {
		if !gen.IsLetter(b[i]) {
			continue
		}
		up := false
		switch mode {
		case 0:
		case 1:
			up = true
		case 2:
			up = k%2 == 0
		default:
			up = h64(salt, mode, k)&1 == 1
		}
		if up {
			b[i] &^= 0x20
		} else {
			b[i] |= 0x20
		}
		k++
	}
	return string(b)
}

// derivation d of triple i: d in [0, (len(Seps)+nMixed)*nCaseFix)
func (g *sqlGrammar) nDeriv() int { return (len(g.Seps) + nMixed) * nCaseFix }

func (g *sqlGrammar) derive(i, d int) string {
	cm := d % nCaseFix
	sm := d / nCaseFix
	skel := g.skeleton(i)
	var s string
	if sm < len(g.Seps) {
		s = applySeps(skel, g.Seps, func(int) int { return sm })
	} else {
		s = applySeps(skel, g.Seps, func(k int) int { return int(h64(i, sm, k) % uint64(len(g.Seps))) })
	}
	return applyCase(s, cm, i)
}

type sqlCalib struct {
	GrammarHash string            `json:"grammar_hash"`
	RepoCommit  string            `json:"calibrated_on"`
	Kept        string            `json:"kept_bitmap"` // one '0'/'1' per triple index
	Summary     map[string][2]int `json:"summary_kept_of_total"`
	Note        string            `json:"note"`
}

func loadSQLCalib() (*sqlCalib, error) {
	raw, err := os.ReadFile(filepath.Join(verifDirEarly(), "grammars", "sqli.json"))
	if err != nil {
		return nil, err
	}
	var c sqlCalib
	if err := json.Unmarshal(raw, &c); err != nil {
		return nil, err
	}
	if c.GrammarHash != sqlG.hash() {
		return nil, fmt.Errorf("grammars/sqli.json was calibrated for grammar %s, code has %s", c.GrammarHash, sqlG.hash())
	}
	if len(c.Kept) != sqlG.nTriples() {
		return nil, fmt.Errorf("bitmap length %d != %d", len(c.Kept), sqlG.nTriples())
	}
	return &c, nil
}

var (
	keptOnce    sync.Once
	keptTriples []int
	keptErr     error
)

func keptSQLTriples() ([]int, error) {
	keptOnce.Do(func() {
		c, err := loadSQLCalib()
		if err != nil {
			keptErr = err
			return
		}
		for i := 0; i < len(c.Kept); i++ {
			if c.Kept[i] == '1' {
				keptTriples = append(keptTriples, i)
			}
		}
	})
	return keptTriples, keptErr
}

// attackInputs: one plain derivation (single spaces, lower case) per kept triple.
func attackInputs() []string {
	kt, _ := keptSQLTriples()
	out := make([]string, 0, len(kt))
	for _, i := range kt {
		out = append(out, sqlG.derive(i, 0))
	}
	if len(out) == 0 {
		out = []string{"1 union select 1", "1' or 1=1 -- ", "1; drop table users"}
	}
	return out
}

// TestCalibrateC03 writes grammars/sqli.json. Run once, on the repaired pinned tree.
func TestCalibrateC03(t *testing.T) {
	commit := os.Getenv("VERIF_CALIBRATE")
	if commit == "" {
		t.Skip()
	}
	g := sqlG
	n := g.nTriples()
	kept := make([]byte, n)
	var wg sync.WaitGroup
	for w := 0; w < workers; w++ {
		wg.Add(1)
		go func(w int) {
			defer wg.Done()
			for i := w; i < n; i += workers {
				kept[i] = '0'
				if !g.valid(i) {
					continue
				}
				ok := true
				for d := 0; d < g.nDeriv() && ok; d++ {
					b, _ := lib.IsSQLi(g.derive(i, d))
					ok = b
				}
				if ok {
					kept[i] = '1'
				}
			}
		}(w)
	}
	wg.Wait()
	sum := map[string][2]int{}
	bump := func(k string, ok bool) {
		v := sum[k]
		v[1]++
		if ok {
			v[0]++
		}
		sum[k] = v
	}
	for i := 0; i < n; i++ {
		if !g.valid(i) {
			continue
		}
		ci, pi, ti := g.triple(i)
		ok := kept[i] == '1'
		bump("all", ok)
		bump("family:"+g.Fam[pi], ok)
		bump("context:"+g.CtxClass[ci], ok)
		bump(fmt.Sprintf("tail:%q", strings.ReplaceAll(g.Tails[ti], sepMark, "~")), ok)
		bump(fmt.Sprintf("payload:%q", strings.ReplaceAll(g.Pay[pi], sepMark, "~")), ok)
	}
	c := sqlCalib{GrammarHash: g.hash(), RepoCommit: commit, Kept: string(kept), Summary: sum,
		Note: "a (context,payload,tail) triple is kept iff every one of its (13 uniform + 8 mixed separator assignments) x 5 case modes derivations is reported as SQLi by the tree named in calibrated_on; '~' marks a separator position"}
	raw, _ := json.MarshalIndent(c, "", " ")
	if err := os.WriteFile(filepath.Join(verifDirEarly(), "grammars", "sqli.json"), append(raw, '\n'), 0o644); err != nil {
		t.Fatal(err)
	}
	fmt.Printf("calibrated: kept %d of %d triples\n", sum["all"][0], sum["all"][1])
}

func c03Oracle(c ev.Case) Res {
	b, fp := lib.IsSQLi(c.In)
	if !b {
		return fail("grammar member not detected as SQLi (%s)", c.Kind)
	}
	return Res{NT: true, Class: "fp_" + fp}
}

func TestC03(t *testing.T) {
	c := NewCheck(t, "C03", "cases are derivations of the calibrated attack grammar: kept (context,payload,tail) triple x separator assignment (13 uniform, 8 hash-determined mixed) x case mode (lower, upper, alternating, 2 hash-determined masks): this finite set is exactly the set verified at calibration and is enumerated completely; on top, rapid draws per-letter case masks; every derivation is an attack, hence non-trivial; oracle: IsSQLi(a) is true; distinct by construction (random part deduplicated by FNV-64)")
	c.rec.Assume = []string{"grammars/sqli.json: triples calibrated on the repaired pinned tree (never re-calibrated by the check)", "random case masks are sound because no letter of the grammar is in a case-exempt position (C10)"}
	c.noMinimise = true
	defer c.Finish()
	kt, err := keptSQLTriples()
	if err != nil || len(kt) == 0 {
		fmt.Printf("INCONCLUSIVE property=C03 calibration file unusable: %v\n", err)
		c.rec.Require("calibration_file")
		return
	}
	g := sqlG
	nd := g.nDeriv()
	p := c.rec.NewPart("grammar_exhaustive", fmt.Sprintf("%d kept triples x %d derivations", len(kt), nd), false, true, "finite")
	var mu sync.Mutex
	fps := map[string]bool{}
	passHist := [5]int64{}
	famSeen := map[string]int64{}
	c.ParRange(p, int64(len(kt)), func(w *Worker, k int64) {
		i := kt[k]
		_, pi, _ := g.triple(i)
		local := map[string]bool{}
		for d := 0; d < nd; d++ {
			in := g.derive(i, d)
			cs := ev.Case{Kind: g.Fam[pi], N: i, In: in}
			if !w.Judge(cs) {
				return
			}
			if d%nCaseFix == 0 {
				_, fp := lib.IsSQLi(in)
				local[fp] = true
			}
		}
		// first-firing pass of the plain derivation
		plain := g.derive(i, 0)
		first := -1
		for pi2, m := range passModes {
			if _, _, _, v, _ := lib.VFingerprint(plain, m); v {
				first = pi2
				break
			}
		}
		mu.Lock()
		for f := range local {
			fps[f] = true
		}
		if first >= 0 {
			passHist[first]++
		}
		famSeen[g.Fam[pi]]++
		mu.Unlock()
	})
	for f, n := range famSeen {
		c.rec.AddClass("family_"+f, n)
	}
	for i, n := range passHist {
		c.rec.AddClass(fmt.Sprintf("first_firing_pass_%d_%s", i, modeName(passModes[i])), n)
	}
	var fl []string
	for f := range fps {
		fl = append(fl, f)
	}
	sort.Strings(fl)
	c.rec.Extra["distinct_fingerprints_reached"] = len(fl)
	c.rec.Extra["fingerprints"] = strings.Join(fl, " ")
	if len(fl) >= 200 {
		c.rec.AddClass("at_least_200_fingerprints", 1)
	}

	p = c.rec.NewPart("rapid_case_masks", "rapid: kept triple x separator assignment x per-letter case mask", true, false, "")
	c.Rapid(p, 8, pick(60000, 600000), func(rt *rapid.T, sh int) ev.Case {
		i := kt[rapid.IntRange(0, len(kt)-1).Draw(rt, "triple")]
		sm := rapid.IntRange(0, len(g.Seps)+nMixed-1).Draw(rt, "sep")
		s := g.derive(i, sm*nCaseFix)
		b := []byte(s)
		for j := range b {
			if gen.IsLetter(b[j]) && rapid.Bool().Draw(rt, "up") {
				b[j] ^= 0x20
			}
		}
		_, pi, _ := g.triple(i)
		return ev.Case{Kind: g.Fam[pi], N: i, In: string(b)}
	})
	c.rec.Require("family_tautology", "family_union", "family_stacked", "family_function", "family_comment_truncation", "family_combined", "family_folding_noise", "at_least_200_fingerprints")
	for i := range passModes {
		c.rec.Require(fmt.Sprintf("first_firing_pass_%d_%s", i, modeName(passModes[i])))
	}
}
