package props

import (
	"fmt"
	"strings"
	"testing"

	lib "github.com/corazawaf/libinjection-go"
	"pgregory.net/rapid"
	"verifh/ev"
	"verifh/gen"
)

// C13 - XSS contexts mean what they say; surrounding text cannot hide a vector.

func init() { registry["C13"] = c13Oracle }

// passLeakAtoms: atoms that leave a tag / end tag / comment unfinished in one start context, break out
// of a value in another, and black tags closed directly by '>' (state leaking between the passes of IsXSS)
var passLeakAtoms = []string{"'>", "\">", "`>", "/>", ">", "</a x=", "</a ", "</i", "</>", "</a x='", "</a x=\"", "<script>", "<xss>", "<!--", "//-->", "'", "\"", " ", "x=", "<a "}

var ctxEmbeds = []string{"", "<a ", "<a b='", "<a b=\"", "<a b=`"}

// tokens the embed itself contributes before the injected text starts
var ctxEmbedTokens = []int{0, 1, 2, 2, 2}

func c13Oracle(c ev.Case) Res {
	s := c.In
	switch c.Kind {
	case "contexts":
		any := false
		var vs [5]bool
		for ctx := 0; ctx < 5; ctx++ {
			vs[ctx] = lib.VIsXSSCtx(s, ctx)
			any = any || vs[ctx]
		}
		if got := lib.IsXSS(s); got != any {
			return fail("IsXSS=%v but the five context verdicts are %v", got, vs)
		}
		for ctx := 1; ctx < 5; ctx++ {
			e := ctxEmbeds[ctx]
			if ev2 := lib.VIsXSSCtx(e+s, 0); ev2 != vs[ctx] {
				return fail("%s context verdict %v, but %q+x analysed as markup gives %v", ctxNames[ctx], vs[ctx], e, ev2)
			}
			// token streams agree after dropping the embed's own tokens and shifting offsets
			a := lib.VH5Tokens(s, ctx, len(s)+8)
			b := lib.VH5Tokens(e+s, 0, len(s)+8)
			k := ctxEmbedTokens[ctx]
			if len(b) < k {
				return fail("%s context: embedded stream too short: %s", ctxNames[ctx], showH5(b))
			}
			b = b[k:]
			if len(s) > 0 && !sameShifted(b, a, len(e)) {
				return fail("%s context: tokens %s differ from the embedded reading %s (shift %d)", ctxNames[ctx], showH5(a), showH5(b), len(e))
			}
		}
		diff := false
		for ctx := 1; ctx < 5; ctx++ {
			if vs[ctx] != vs[0] {
				diff = true
			}
		}
		cls := "all_false"
		if any {
			cls = "some_true"
		}
		if diff {
			cls = "contexts_disagree"
		}
		return Res{NT: any || diff, Class: cls}
	case "prefix":
		t := c.In2
		if strings.IndexByte(t, '<') >= 0 {
			return Res{}
		}
		a, b := lib.VIsXSSCtx(s, 0), lib.VIsXSSCtx(t+s, 0)
		if a != b {
			return fail("element-content verdict %v, but %v after prepending the '<'-free text %q", a, b, t)
		}
		cls := "prefix_false"
		if a {
			cls = "prefix_true"
		}
		return Res{NT: a && t != "", Class: cls}
	}
	return Res{}
}

var c13Prefixes = []string{"x", " ", "a=b ", "'", "\"", "`", ">", "/>", "-->", "]]>", "%>", "onclick=1 ", "javascript:", "&#60;", "a b='c' d", "\x00", "=", "/", "style=x ", "href=javascript:x "}

func TestC13(t *testing.T) {
	c := NewCheck(t, "C13", "kind contexts: IsXSS(s) == OR of the five per-context verdicts; for each attribute context the verdict equals that of embed+s analysed as markup (embeds <a , <a b=', <a b=\", <a b=`) and the token streams agree after dropping the embed's own tokens and shifting offsets; kind prefix: for t without '<', verdict(t+s, data) == verdict(s, data); non-trivial = some verdict true or contexts disagree (contexts) / verdict true with a non-empty prefix (prefix); enumerations duplicate-free, random parts deduplicated by FNV-64")
	c.rec.Assume = []string{"per-context verdicts and token streams read through the accessors"}
	defer c.Finish()
	ctxCase := func(s string) ev.Case { return ev.Case{Kind: "contexts", In: s} }

	L := pick(4, 5)
	p := c.rec.NewPart("bytes_exhaustive", fmt.Sprintf("contexts relation on every string of length 0..%d over the HTML alphabet", L), false, true, "")
	c.EnumSeq(p, gen.AlphaHTML, "", 0, L, func(w *Worker, s string) { w.Judge(ctxCase(s)) })
	p = c.rec.NewPart("atoms_exhaustive", "contexts relation on every concatenation of 1..3 markup atoms", false, true, "")
	c.EnumSeq(p, htmlAtoms, "", 1, 3, func(w *Worker, s string) { w.Judge(ctxCase(s)) })
	vec := xssVectors()
	p = c.rec.NewPart("vectors", "contexts relation on every XSS grammar vector; prefix relation with 20 '<'-free prefixes", false, true, "")
	c.ParRange(p, int64(len(vec)), func(w *Worker, i int64) {
		w.Judge(ctxCase(vec[i]))
		for j := int(i) % 4; j < len(c13Prefixes); j += 4 {
			w.Judge(ev.Case{Kind: "prefix", In: vec[i], In2: c13Prefixes[j]})
		}
	})
	p = c.rec.NewPart("prefix_atoms_exhaustive", "prefix relation: every concatenation of 1..2 atoms as s x every prefix", false, true, "")
	c.EnumSeq(p, htmlAtoms, "", 1, 2, func(w *Worker, s string) {
		for _, t := range c13Prefixes {
			w.Judge(ev.Case{Kind: "prefix", In: s, In2: t})
		}
	})

	// inter-pass state: atoms that leave a tag / end tag / comment unfinished in one start context,
	// break out of a value in another, and black tags closed directly by '>'
	leak := passLeakAtoms
	_ = []string{"'>", "\">", "`>", "/>", ">", "</a x=", "</a ", "</i", "</>", "</a x='", "</a x=\"", "<script>", "<xss>", "<!--", "//-->", "'", "\"", " ", "x=", "<a "}
	Ll := pick(5, 6)
	p = c.rec.NewPart("pass_leak_atoms_exhaustive", fmt.Sprintf("contexts relation on every concatenation of 1..%d of %d atoms that end one pass in an unfinished construct and hide a black tag from the others", Ll, len(leak)), false, true, "")
	c.EnumSeq(p, leak, "", 1, Ll, func(w *Worker, s string) { w.Judge(ctxCase(s)) })

	hb := htmlBoundaryInputs()
	p = c.rec.NewPart("boundary_inputs", "length-, count- and code-point boundary inputs (see C07): contexts relation, and prefix relation with 4 prefixes", false, true, "")
	c.ParRange(p, int64(len(hb)), func(w *Worker, i int64) {
		w.Judge(ctxCase(hb[i]))
		for j := int(i) % 5; j < len(c13Prefixes); j += 5 {
			w.Judge(ev.Case{Kind: "prefix", In: hb[i], In2: c13Prefixes[j]})
		}
	})

	g := gen.HTMLInput()
	p = c.rec.NewPart("rapid_contexts", "rapid: fragment-grammar input / mutated vector / mutated fixture", true, false, "")
	c.Rapid(p, 8, pick(80000, 900000), func(rt *rapid.T, sh int) ev.Case {
		switch rapid.IntRange(0, 2).Draw(rt, "src") {
		case 0:
			return ctxCase(gen.Mutate(rt, rapid.SampledFrom(vec).Draw(rt, "vec"), gen.FragHTML))
		case 1:
			return ctxCase(gen.Mutate(rt, rapid.SampledFrom(corp().HTML).Draw(rt, "fix"), gen.FragHTML))
		}
		return ctxCase(g.Draw(rt, "s"))
	})
	p = c.rec.NewPart("rapid_prefix", "rapid: s as above, prefix = fragment-grammar text with every '<' removed by construction", true, false, "")
	c.Rapid(p, 8, pick(80000, 900000), func(rt *rapid.T, sh int) ev.Case {
		var s string
		if rapid.Bool().Draw(rt, "src") {
			s = gen.Mutate(rt, rapid.SampledFrom(vec).Draw(rt, "vec"), gen.FragHTML)
		} else {
			s = g.Draw(rt, "s")
		}
		t := strings.ReplaceAll(g.Draw(rt, "t"), "<", "")
		return ev.Case{Kind: "prefix", In: s, In2: t}
	})
	c.rec.Require("some_true", "contexts_disagree", "all_false", "prefix_true", "prefix_false")
}
