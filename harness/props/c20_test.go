package props

import (
	"encoding/json"
	"fmt"
	"os"
	"path/filepath"
	"sort"
	"strings"
	"sync"
	"testing"

	lib "github.com/corazawaf/libinjection-go"
	"verifh/ev"
	"verifh/gen"
)

// C20 - shipped detection tables are well-formed and never lose baseline entries.
// Finite domain, enumerated exhaustively.

func init() { registry["C20"] = c20Oracle }

type baselineTables struct {
	Commit   string            `json:"pinned_commit"`
	Keywords map[string]string `json:"keywords"` // key -> class character
	Tags     []string          `json:"black_tags"`
	Attrs    map[string]int    `json:"black_attrs"`
	Events   map[string]int    `json:"black_events"`
}

func currentTables() baselineTables {
	b := baselineTables{Keywords: map[string]string{}, Attrs: map[string]int{}, Events: map[string]int{}}
	for k, v := range lib.VKeywords() {
		b.Keywords[k] = string([]byte{v})
	}
	b.Tags = lib.VBlackTags()
	for _, a := range lib.VBlackAttrs() {
		b.Attrs[a.Name] = a.Type
	}
	for _, a := range lib.VBlackEvents() {
		b.Events[a.Name] = a.Type
	}
	return b
}

var baseline = func() *baselineTables {
	raw, err := os.ReadFile(filepath.Join(verifDirEarly(), "baseline", "tables.json"))
	if err != nil {
		return nil
	}
	var b baselineTables
	if json.Unmarshal(raw, &b) != nil {
		return nil
	}
	return &b
}()

func verifDirEarly() string {
	if v := os.Getenv("VERIF_BASELINE_DIR"); v != "" {
		return v
	}
	return "/verif"
}

// TestGenBaseline writes baseline/tables.json (run once, at the pinned commit).
func TestGenBaseline(t *testing.T) {
	if os.Getenv("VERIF_GEN_BASELINE") == "" {
		t.Skip()
	}
	b := currentTables()
	b.Commit = os.Getenv("VERIF_GEN_BASELINE")
	sort.Strings(b.Tags)
	raw, _ := json.MarshalIndent(b, "", " ")
	if err := os.WriteFile(filepath.Join(verifDirEarly(), "baseline", "tables.json"), append(raw, '\n'), 0o644); err != nil {
		t.Fatal(err)
	}
}

func isUpperASCIIForm(s string) bool {
	for i := 0; i < len(s); i++ {
		if s[i] >= 'a' && s[i] <= 'z' {
			return false
		}
	}
	return true
}

const fpClassAlphabet = "kUBEtfn1vso&cA(){}.,:;T?X\\"

// one case = one table entry (kind = table[/baseline], In = key/name, In2 = expected value for baseline entries)
func c20Oracle(c ev.Case) Res {
	cur := currentTablesCached()
	if strings.HasPrefix(c.Kind, "after_") {
		// the same predicates on the tables as they are after a detection workload
		c20Workload()
		cur = tablesAfterWorkload()
		c.Kind = c.Kind[6:]
		r := c20Judge(c, cur)
		if r.Err != "" {
			r.Err = "after a workload of detector calls: " + r.Err
		}
		if r.Class != "" {
			r.Class = "after_workload"
		}
		return r
	}
	return c20Judge(c, cur)
}

var (
	c20WorkOnce  sync.Once
	c20AfterOnce sync.Once
	c20After     baselineTables
)

// c20Workload calls both detectors on fixtures, attack-grammar members and XSS vectors in
// lower, upper and mixed case (sequentially), so that a table that is written to during
// detection shows its changed content afterwards.
func c20Workload() {
	c20WorkOnce.Do(func() {
		var in []string
		in = append(in, corp().SQL...)
		in = append(in, corp().HTML...)
		att := attackInputs()
		for i := 0; i < len(att); i += len(att)/400 + 1 {
			in = append(in, att[i])
		}
		vec := xssVectors()
		for i := 0; i < len(vec); i += len(vec)/400 + 1 {
			in = append(in, vec[i])
		}
		in = append(in, c10Witnesses...)
		in = append(in, c05Universe()...)
		hb, sb := htmlBoundaryInputs(), sqlBoundaryInputs()
		for i := 0; i < len(hb); i += 40 {
			if len(hb[i]) < 5000 {
				in = append(in, hb[i])
			}
		}
		for i := 0; i < len(sb); i += 400 {
			if len(sb[i]) < 5000 {
				in = append(in, sb[i])
			}
		}
		// every attribute and event name as an attribute, as the value of attributename, and next to benign ones
		var names []string
		for n := range xlists().Attrs {
			names = append(names, n)
		}
		for n := range xlists().Events {
			names = append(names, "on"+n)
		}
		sort.Strings(names)
		for _, n := range append(names, "fill", "opacity", "x", "transform", "title", "class") {
			ln := gen.LowerASCII(n)
			in = append(in, "<a "+ln+"=x>", "<set attributeName="+ln+" to=red>", "<animate attributename='"+ln+"' values=x>", "<set attributeName=fill "+ln+"=red>", "<a title=x "+ln+">")
		}
		for _, s := range in {
			for m := 0; m < 3; m++ {
				v := maskCase(s, make([]bool, len(s)), m, 0)
				lib.IsSQLi(v)
				lib.IsXSS(v)
			}
		}
		// the same calls once more from 8 goroutines at once (a table that is re-ordered or filtered in place while
		// detecting is torn by concurrent callers)
		var wg sync.WaitGroup
		for g := 0; g < 8; g++ {
			wg.Add(1)
			go func(g int) {
				defer wg.Done()
				defer func() { recover() }()
				for i := g; i < len(in); i += 2 {
					lib.IsXSS(in[i])
					lib.IsSQLi(in[i])
				}
			}(g)
		}
		wg.Wait()
	})
}

func tablesAfterWorkload() *baselineTables {
	c20AfterOnce.Do(func() { c20After = currentTables() })
	return &c20After
}

func c20Judge(c ev.Case, cur *baselineTables) Res {
	key := c.In
	switch c.Kind {
	case "keyword":
		v, ok := cur.Keywords[key]
		if !ok {
			return Res{}
		}
		if !isUpperASCIIForm(key) || strings.ToUpper(key) != key {
			return fail("keyword table key %q is not in upper-case form: the case-folding look-up can never reach it", key)
		}
		if len(key) > 31 {
			return fail("keyword table key %q is longer than 31 bytes: a clipped token can never equal it", key)
		}
		if len(key) == 0 {
			return fail("empty keyword table key")
		}
		if v == "F" {
			if key[0] != '0' || len(key) < 2 || len(key) > 6 {
				return fail("fingerprint key %q is not '0' followed by 1-5 class characters", key)
			}
			for i := 1; i < len(key); i++ {
				// fingerprints are stored upper-cased: class characters map through ASCII upper
				ok := false
				for j := 0; j < len(fpClassAlphabet); j++ {
					ch := fpClassAlphabet[j]
					if ch >= 'a' && ch <= 'z' {
						ch -= 32
					}
					if key[i] == ch {
						ok = true
					}
				}
				if !ok {
					return fail("fingerprint key %q contains %q which is not a token class character", key, key[i])
				}
			}
			return Res{NT: true, Class: "fingerprint"}
		}
		if len(v) != 1 || strings.IndexByte(fpClassAlphabet, v[0]) < 0 {
			return fail("keyword %q has value %q which is not a token class character", key, v)
		}
		if v == "f" && len(key) < 2 {
			return fail("function name %q is shorter than two bytes", key)
		}
		return Res{NT: true, Class: "keyword_" + v}
	case "tag", "attr", "event":
		if key == "" {
			return fail("empty %s name", c.Kind)
		}
		if !isUpperASCIIForm(key) || strings.ToUpper(key) != key {
			return fail("%s name %q is not upper-case: the upper-casing comparison can never match it", c.Kind, key)
		}
		if strings.IndexByte(key, 0) >= 0 {
			return fail("%s name %q contains NUL: NUL stripping makes it unreachable", c.Kind, key)
		}
		return Res{NT: true, Class: c.Kind}
	case "base_keyword":
		v, ok := cur.Keywords[key]
		if !ok {
			return fail("baseline keyword-table entry %q (class %s) is missing", key, c.In2)
		}
		if v != c.In2 {
			return fail("baseline keyword-table entry %q changed class %s -> %s", key, c.In2, v)
		}
		return Res{NT: true, Class: "baseline_keyword"}
	case "base_tag":
		for _, t := range cur.Tags {
			if t == key {
				return Res{NT: true, Class: "baseline_tag"}
			}
		}
		return fail("baseline black tag %q is missing", key)
	case "base_attr", "base_event":
		m := cur.Attrs
		if c.Kind == "base_event" {
			m = cur.Events
		}
		v, ok := m[key]
		if !ok {
			return fail("baseline %s %q is missing", c.Kind[5:], key)
		}
		if fmt.Sprint(v) != c.In2 {
			return fail("baseline %s %q changed type %s -> %d", c.Kind[5:], key, c.In2, v)
		}
		return Res{NT: true, Class: "baseline_" + c.Kind[5:]}
	}
	return Res{}
}

var curTablesOnce *baselineTables

func currentTablesCached() *baselineTables {
	if curTablesOnce == nil {
		b := currentTables()
		curTablesOnce = &b
	}
	return curTablesOnce
}

func TestC20(t *testing.T) {
	currentTablesCached()
	c := NewCheck(t, "C20", "one case per table entry: every entry of the current keyword/fingerprint table, black tags, black attributes and black events is checked for well-formedness, and every entry of baseline/tables.json (snapshot of the pinned commit) must be present with equal value; the domain is finite and enumerated completely; every entry is non-trivial; distinct by (table, key)")
	c.rec.Assume = []string{"tables are read through the build-tagged accessors (copies)", "baseline/tables.json was generated at the pinned commit recorded inside it", "gsHexDecodeMap is covered behaviourally by C19"}
	defer c.Finish()
	if baseline == nil {
		fmt.Println("INCONCLUSIVE property=C20 baseline/tables.json missing or unreadable")
		c.rec.Require("baseline_file_present")
		return
	}
	cur := currentTablesCached()
	var cases []ev.Case
	for k := range cur.Keywords {
		cases = append(cases, ev.Case{Kind: "keyword", In: k})
	}
	for _, k := range cur.Tags {
		cases = append(cases, ev.Case{Kind: "tag", In: k})
	}
	for k := range cur.Attrs {
		cases = append(cases, ev.Case{Kind: "attr", In: k})
	}
	for k := range cur.Events {
		cases = append(cases, ev.Case{Kind: "event", In: k})
	}
	for k, v := range baseline.Keywords {
		cases = append(cases, ev.Case{Kind: "base_keyword", In: k, In2: v})
	}
	for _, k := range baseline.Tags {
		cases = append(cases, ev.Case{Kind: "base_tag", In: k})
	}
	for k, v := range baseline.Attrs {
		cases = append(cases, ev.Case{Kind: "base_attr", In: k, In2: fmt.Sprint(v)})
	}
	for k, v := range baseline.Events {
		cases = append(cases, ev.Case{Kind: "base_event", In: k, In2: fmt.Sprint(v)})
	}
	sort.Slice(cases, func(i, j int) bool {
		if cases[i].Kind != cases[j].Kind {
			return cases[i].Kind < cases[j].Kind
		}
		return cases[i].In < cases[j].In
	})
	// duplicate names inside the slice-typed lists would shadow each other: report as well
	p := c.rec.NewPart("all_entries", fmt.Sprintf("%d current entries + %d baseline entries", len(cur.Keywords)+len(cur.Tags)+len(cur.Attrs)+len(cur.Events), len(baseline.Keywords)+len(baseline.Tags)+len(baseline.Attrs)+len(baseline.Events)), false, true, "finite")
	c.ParRange(p, int64(len(cases)), func(w *Worker, i int64) { w.Judge(cases[i]) })
	// the same, on the tables as they are after a workload (a table must not change while detecting)
	c20Workload()
	after := tablesAfterWorkload()
	var acases []ev.Case
	for k := range after.Keywords {
		acases = append(acases, ev.Case{Kind: "after_keyword", In: k})
	}
	for _, k := range after.Tags {
		acases = append(acases, ev.Case{Kind: "after_tag", In: k})
	}
	for k := range after.Attrs {
		acases = append(acases, ev.Case{Kind: "after_attr", In: k})
	}
	for k := range after.Events {
		acases = append(acases, ev.Case{Kind: "after_event", In: k})
	}
	for k, v := range baseline.Keywords {
		acases = append(acases, ev.Case{Kind: "after_base_keyword", In: k, In2: v})
	}
	for _, k := range baseline.Tags {
		acases = append(acases, ev.Case{Kind: "after_base_tag", In: k})
	}
	for k, v := range baseline.Attrs {
		acases = append(acases, ev.Case{Kind: "after_base_attr", In: k, In2: fmt.Sprint(v)})
	}
	for k, v := range baseline.Events {
		acases = append(acases, ev.Case{Kind: "after_base_event", In: k, In2: fmt.Sprint(v)})
	}
	sort.Slice(acases, func(i, j int) bool {
		if acases[i].Kind != acases[j].Kind {
			return acases[i].Kind < acases[j].Kind
		}
		return acases[i].In < acases[j].In
	})
	p = c.rec.NewPart("all_entries_after_workload", fmt.Sprintf("%d entries of the tables re-read after a workload of detector calls (fixtures, attack grammar, vectors, the C05 universe, boundary inputs, every list name as attribute and as attributename value; three case modes sequentially, then once more from 8 goroutines)", len(acases)), false, true, "finite")
	c.ParRange(p, int64(len(acases)), func(w *Worker, i int64) { w.Judge(acases[i]) })
	if len(after.Keywords) != len(cur.Keywords) {
		c.rec.Violate(ev.Case{Kind: "after_keyword", In: "(table size)"}, fmt.Sprintf("the keyword table had %d entries at start and has %d after a workload of detector calls", len(cur.Keywords), len(after.Keywords)))
	}
	c.rec.Extra["baseline_commit"] = baseline.Commit
	c.rec.Require("after_workload", "fingerprint", "baseline_keyword", "baseline_tag", "baseline_attr", "baseline_event", "tag", "attr", "event")
}
