package props

import (
	"fmt"
	"strings"
	"testing"

	lib "github.com/corazawaf/libinjection-go"
	"pgregory.net/rapid"
	"verifh/ev"
	"verifh/gen"
)

// C16 - SQL tokens are faithful, ordered slices of the input and scanning progresses.
// Deliberately independent of the reference model.

func init() { registry["C16"] = c16Oracle }

const sqlClassAlphabet = "kUBEtfn1vso&cA(){}.,:;T?X\\"

func c16Oracle(c ev.Case) Res {
	s := c.In
	res := Res{}
	for _, m := range allModes {
		toks, _, end, capped := lib.VTokenize(s, m)
		if capped {
			return fail("mode %s: more than |s|+8 tokens (scanner does not progress)", modeName(m))
		}
		if end != len(s) {
			return fail("mode %s: scan ended at offset %d, input has %d bytes", modeName(m), end, len(s))
		}
		if len(toks) > len(s) {
			return fail("mode %s: %d tokens from %d bytes", modeName(m), len(toks), len(s))
		}
		prevEnd := 0
		for i, t := range toks {
			if t.Len < 0 || t.Len > 31 {
				return fail("mode %s: token %d length %d outside 0..31", modeName(m), i, t.Len)
			}
			if t.Pos < 0 || t.Pos+t.Len > len(s) {
				return fail("mode %s: token %d span [%d,%d) outside the input", modeName(m), i, t.Pos, t.Pos+t.Len)
			}
			if t.Val != s[t.Pos:t.Pos+t.Len] {
				return fail("mode %s: token %d value %q is not the input at [%d,%d) = %q", modeName(m), i, t.Val, t.Pos, t.Pos+t.Len, s[t.Pos:t.Pos+t.Len])
			}
			if t.Before > t.Pos {
				return fail("mode %s: token %d starts at %d before its scan step began (%d)", modeName(m), i, t.Pos, t.Before)
			}
			if t.Pos+t.Len > t.After {
				return fail("mode %s: token %d ends at %d after its scan step ended (%d)", modeName(m), i, t.Pos+t.Len, t.After)
			}
			if t.After <= t.Before {
				return fail("mode %s: scan step of token %d consumed no byte (%d -> %d)", modeName(m), i, t.Before, t.After)
			}
			if t.Pos < prevEnd {
				return fail("mode %s: token %d at %d overlaps the previous token ending at %d", modeName(m), i, t.Pos, prevEnd)
			}
			if i > 0 && t.Before != toks[i-1].After {
				return fail("mode %s: scan step of token %d starts at %d, previous ended at %d", modeName(m), i, t.Before, toks[i-1].After)
			}
			if strings.IndexByte(sqlClassAlphabet, t.Cat) < 0 {
				return fail("mode %s: token %d has class %q outside the documented alphabet", modeName(m), i, t.Cat)
			}
			prevEnd = t.Pos + t.Len
			if t.Len == 31 {
				res.NT = true
				res.Class = "clipped_token"
			}
		}
		if len(toks) >= 2 {
			res.NT = true
		}
	}
	return res
}

func c16Case(s string) ev.Case { return ev.Case{Kind: "inv", In: s} }

func longTokenInputs() []string {
	var out []string
	for _, n := range []int{30, 31, 32, 33, 40, 64, 100} {
		a := strings.Repeat("a", n)
		d := strings.Repeat("7", n)
		for _, s := range []string{a, d, "'" + a + "'", "\"" + a, "`" + a + "`", "/*" + a + "*/", "--" + a, "#" + a + "\nb", "@" + a, "@@" + a, "@`" + a + "`", "[" + a + "]", "0x" + d, "$" + d,
			"q'(" + a + ")'", "nq'(" + a, "$a$" + a + "$a$", "$$" + a, "x'" + d + "'", "b'" + strings.Repeat("1", n) + "'", "u&'" + a + "'", "n'" + a + "'", d + "." + d + "e" + d, a + "." + a, "select" + a, a + " " + a, "1 " + a + " union select"} {
			out = append(out, s, " "+s+" ", s+s, "1"+s)
		}
	}
	return out
}

func TestC16(t *testing.T) {
	c := NewCheck(t, "C16", "cases are byte strings tokenised in all 6 modes through the accessor; invariants: value == input slice, length <= 31, spans inside their scan step, steps contiguous and consuming >= 1 byte, tokens ordered and disjoint, scan ends at |s|, class in the documented alphabet, count <= |s|, step cap not hit; enumerated parts duplicate-free, random parts deduplicated by FNV-64; non-trivial = some mode yields >= 2 tokens or a clipped (31-byte) token")
	c.rec.Assume = []string{"token records are read through the build-tagged accessor VTokenize"}
	defer c.Finish()
	judge := func(w *Worker, s string) { w.Judge(c16Case(s)) }

	L := pick(3, 4)
	p := c.rec.NewPart("bytes_exhaustive", fmt.Sprintf("every string of length 0..%d over the %d-symbol SQL alphabet", L, len(gen.AlphaSQL)), false, true, "")
	c.EnumSeq(p, gen.AlphaSQL, "", 0, L, judge)
	Lc := pick(5, 6)
	p = c.rec.NewPart("bytes_core_exhaustive", fmt.Sprintf("every string of length %d..%d over the %d-symbol core alphabet", L+1, Lc, len(gen.CoreSQL)), false, true, "")
	c.EnumSeq(p, gen.CoreSQL, "", L+1, Lc, judge)
	p = c.rec.NewPart("tokens_exhaustive", "every space-joined sequence of 1..3 token atoms", false, true, "")
	c.EnumSeq(p, tokenAtoms, " ", 1, 3, judge)

	lt := append(longTokenInputs(), sqlTruncationInputs()...)
	p = c.rec.NewPart("long_tokens_and_truncations", "30..100-byte words, numbers, strings, comments, variables, bracket words in several contexts; every prefix of every literal form and corpus input", false, true, "")
	c.ParRange(p, int64(len(lt)), func(w *Worker, i int64) { judge(w, lt[i]) })

	bnd := sqlBoundaryInputs()
	p = c.rec.NewPart("boundary_inputs", "slot-, clip- and length-boundary inputs (see C06), incl. multi-byte characters across the 31-byte clip and BOM-prefixed fixtures", false, true, "")
	c.ParRange(p, int64(len(bnd)), func(w *Worker, i int64) { judge(w, bnd[i]) })

	p = c.rec.NewPart("source_bytes", fmt.Sprintf("bytes the SQLi source files write as literals and the byte-class alphabet lacks, inserted at every position of every string of 0..%d core symbols, and behind every hostile construct opener at the end of the input", 3), false, true, "")
	c.srcByteInputs(p, extraBytes(srcDict().SQLBytes, gen.AlphaSQL), gen.CoreSQL, 3, sqlHostile, judge)
	p = c.rec.NewPart("source_dictionary", fmt.Sprintf("%d lead constructs (closed and open literals of every kind, numbers, words, punctuation, comments) x blank? x W x blank? x every tail of 0..3 symbols over %q, for each word W (as written, upper, lower) that occurs as a literal in the SQLi source files and is not a table key", len(sqlDictLeads), sqlDictTail), false, true, "")
	c.sqlDictInputs(p, 3, judge)
	p = c.rec.NewPart("rapid_fragments", "rapid over the SQL fragment grammar", true, false, "")
	g := gen.SQLInput()
	c.Rapid(p, 8, pick(60000, 800000), func(rt *rapid.T, sh int) ev.Case { return c16Case(g.Draw(rt, "in")) })
	p = c.rec.NewPart("rapid_bytes", "rapid: arbitrary byte strings up to 64 bytes", true, false, "")
	bg := gen.Bytes(64)
	c.Rapid(p, 4, pick(50000, 600000), func(rt *rapid.T, sh int) ev.Case { return c16Case(bg.Draw(rt, "in")) })
	p = c.rec.NewPart("rapid_corpus_mutation", "rapid: repository fixtures with 1-4 edits", true, false, "")
	c.Rapid(p, 4, pick(15000, 300000), func(rt *rapid.T, sh int) ev.Case {
		return c16Case(gen.Mutate(rt, rapid.SampledFrom(corp().SQL).Draw(rt, "base"), gen.FragSQL))
	})
	c.rec.Require("clipped_token")
}
