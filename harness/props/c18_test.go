package props

import (
	"fmt"
	"strings"
	"testing"

	lib "github.com/corazawaf/libinjection-go"
	"pgregory.net/rapid"
	"verifh/ev"
)

// C18 - SQL string literals end at their first real terminator, in every literal form.
// The definitional scanners below are written from the property's statement and do not
// use the reference model.

func init() { registry["C18"] = c18Oracle }

// firstClose: index (relative to content start) of the first delimiter that is neither
// preceded by an odd run of backslashes (counted back to the content start) nor
// immediately followed by the same delimiter; -1 if none.
func firstClose(content string, d byte) int {
	i := 0
	for i < len(content) {
		if content[i] != d {
			i++
			continue
		}
		bs := 0
		for k := i - 1; k >= 0 && content[k] == '\\'; k-- {
			bs++
		}
		if bs%2 == 1 {
			i++
			continue
		}
		if i+1 < len(content) && content[i+1] == d {
			i += 2
			continue
		}
		return i
	}
	return -1
}

type strMode struct {
	name   string
	opener string // text before the content (includes the real opening quote if any)
	flags  int
	delim  byte
	cat    byte
	open   byte // expected strOpen
	closeM byte // expected strClose when closed (0 = the delimiter)
}

func buildStrModes() []strMode {
	var ms []strMode
	for _, d := range []byte{'\'', '"', '`'} {
		cat := byte('s')
		if d == '`' {
			cat = 'n' // back-tick literals are bare words (or functions, see oracle)
		}
		for _, pre := range []string{"", " ", "1 ", "a=", "(", "x "} {
			ms = append(ms, strMode{name: fmt.Sprintf("real_%c_after_%q", d, pre), opener: pre + string(d), flags: fNone | fANSI, delim: d, cat: cat, open: d})
		}
		if d != '`' {
			fl := fSingle
			if d == '"' {
				fl = fDouble
			}
			ms = append(ms, strMode{name: fmt.Sprintf("virtual_%c", d), opener: "", flags: fl | fANSI, delim: d, cat: 's', open: 0})
			ms = append(ms, strMode{name: fmt.Sprintf("virtual_%c_mysql", d), opener: "", flags: fl | fMySQL, delim: d, cat: 's', open: 0})
		}
		ms = append(ms, strMode{name: fmt.Sprintf("var_@%c", d), opener: "@" + string(d), flags: fNone | fANSI, delim: d, cat: 'v', open: d})
		ms = append(ms, strMode{name: fmt.Sprintf("var_@@%c", d), opener: "@@" + string(d), flags: fNone | fMySQL, delim: d, cat: 'v', open: d})
	}
	for _, p := range []string{"n", "N", "e", "E"} {
		ms = append(ms, strMode{name: p + "'", opener: p + "'", flags: fNone | fANSI, delim: '\'', cat: 's', open: '\''})
	}
	for _, p := range []string{"u&", "U&"} {
		ms = append(ms, strMode{name: p + "'", opener: p + "'", flags: fNone | fANSI, delim: '\'', cat: 's', open: 'u', closeM: 'u'})
	}
	return ms
}

var strModes = buildStrModes()

func findTokAt(toks []lib.VToken, pos int) *lib.VToken {
	for i := range toks {
		if toks[i].Pos == pos && toks[i].After > pos {
			return &toks[i]
		}
	}
	return nil
}

func clip(n int) int {
	if n > 31 {
		return 31
	}
	return n
}

// bs: one byte as a string (string(b) would UTF-8 encode bytes >= 0x80)
func bs(b byte) string { return string([]byte{b}) }

func closeByte(b byte) byte {
	switch b {
	case '(':
		return ')'
	case '[':
		return ']'
	case '{':
		return '}'
	case '<':
		return '>'
	}
	return b
}

func c18Oracle(c ev.Case) Res {
	switch c.Kind {
	case "quote":
		if c.N < 0 || c.N >= len(strModes) {
			return Res{}
		}
		m := strModes[c.N]
		body := c.In
		s := m.opener + body
		if s == "" {
			return Res{}
		}
		st := len(m.opener)
		if m.opener == "" && body == "" {
			return Res{}
		}
		// n'/e'/u&' forms need at least one byte after the quote to be string prefixes at all
		if (len(m.opener) == 2 || len(m.opener) == 3) && (m.opener[0]|0x20 == 'n' || m.opener[0]|0x20 == 'e' || m.opener[0]|0x20 == 'u') && body == "" {
			return Res{Class: "skipped_prefix_needs_content"}
		}
		toks, _, _, capped := lib.VTokenize(s, m.flags)
		if capped {
			return fail("%s: step cap hit", m.name)
		}
		var t *lib.VToken
		if m.opener == "" {
			if len(toks) == 0 {
				return fail("%s: no token", m.name)
			}
			t = &toks[0]
		} else {
			t = findTokAt(toks, st)
			if st == len(s) {
				// opener at end of input: empty unclosed literal
				for i := range toks {
					if toks[i].Pos == st {
						t = &toks[i]
					}
				}
			}
		}
		if t == nil {
			return fail("%s: no token starts at the literal's content offset %d in %q", m.name, st, s)
		}
		q := firstClose(body, m.delim)
		wantLen, wantClose, wantAfter := len(body), byte(0), len(s)
		if q >= 0 {
			wantLen, wantAfter = q, st+q+1
			wantClose = m.delim
			if m.closeM != 0 {
				wantClose = m.closeM
			}
		}
		cat := m.cat
		if m.delim == '`' && m.cat == 'n' && t.Cat == 'f' {
			cat = 'f' // `sleep` style function names stay functions
		}
		if t.Cat != cat || t.Pos != st || t.Len != clip(wantLen) || t.Close != wantClose || t.Open != m.open || t.After != wantAfter {
			return fail("%s: literal token {%c pos=%d len=%d open=%q close=%q after=%d}, expected {%c pos=%d len=%d open=%q close=%q after=%d} (first real terminator at content offset %d)",
				m.name, t.Cat, t.Pos, t.Len, t.Open, t.Close, t.After, cat, st, clip(wantLen), m.open, wantClose, wantAfter, q)
		}
		d := string(m.delim)
		nt := strings.Contains(body, "\\"+d) || strings.Contains(body, d+d) || strings.Count(body, d) >= 2
		return Res{NT: nt, Class: "mode_" + m.name}
	case "qstr":
		b := byte(c.N & 0xff)
		npre := c.N>>8&1 == 1
		upper := c.N>>9&1 == 1
		if b < 33 {
			return Res{}
		}
		op := "q'"
		if upper {
			op = "Q'"
		}
		if npre {
			op = "n" + op
		}
		s := op + bs(b) + c.In
		st := len(op) + 1
		toks, _, _, capped := lib.VTokenize(s, fNone|fANSI)
		if capped || len(toks) == 0 {
			return fail("q-string %q: no token / step cap", s)
		}
		t := toks[0]
		cb := closeByte(b)
		j := -1
		for k := st; k+1 < len(s); k++ {
			if s[k] == cb && s[k+1] == '\'' {
				j = k
				break
			}
		}
		wantLen, wantClose, wantAfter := len(s)-st, byte(0), len(s)
		if j >= 0 {
			wantLen, wantClose, wantAfter = j-st, 'q', j+2
		}
		if t.Cat != 's' || t.Pos != st || t.Len != clip(wantLen) || t.Open != 'q' || t.Close != wantClose || t.After != wantAfter {
			return fail("q-string delimiter 0x%02x: token {%c pos=%d len=%d open=%q close=%q after=%d}, expected {s pos=%d len=%d open='q' close=%q after=%d}", b, t.Cat, t.Pos, t.Len, t.Open, t.Close, t.After, st, clip(wantLen), wantClose, wantAfter)
		}
		cls := "qdelim_ascii"
		if b >= 0x80 {
			cls = "qdelim_high"
		}
		return Res{NT: strings.Count(c.In, bs(cb)) >= 1 && strings.Count(c.In, "'") >= 1, Class: cls}
	case "dollar":
		tags := []string{"$$", "$a$", "$ab$", "$A$", "$Zz$"}
		if c.N < 0 || c.N >= len(tags) {
			return Res{}
		}
		tag := tags[c.N]
		s := tag + c.In
		toks, _, _, capped := lib.VTokenize(s, fNone|fANSI)
		if capped || len(toks) == 0 {
			return fail("dollar string %q: no token / step cap", s)
		}
		t := toks[0]
		st := len(tag)
		j := strings.Index(c.In, tag)
		wantLen, wantClose, wantAfter := len(c.In), byte(0), len(s)
		if j >= 0 {
			wantLen, wantClose, wantAfter = j, '$', st+j+len(tag)
		}
		if t.Cat != 's' || t.Pos != st || t.Len != clip(wantLen) || t.Open != '$' || t.Close != wantClose || t.After != wantAfter {
			return fail("dollar tag %s: token {%c pos=%d len=%d open=%q close=%q after=%d}, expected {s pos=%d len=%d open='$' close=%q after=%d}", tag, t.Cat, t.Pos, t.Len, t.Open, t.Close, t.After, st, clip(wantLen), wantClose, wantAfter)
		}
		return Res{NT: strings.Count(c.In, "$") >= 2, Class: "dollar_" + tag}
	}
	return Res{}
}

func tailRepeat(s string, k int) string {
	if len(s) == 0 {
		return s
	}
	return s + s[k%len(s):]
}

func TestC18(t *testing.T) {
	c := NewCheck(t, "C18", "kind quote: opening mode (real quote after 6 prefixes, virtual quote via flags, n' e' u&' prefixes, @/@@ variables; delimiters ' \" `) x body: the literal's token (content offset, clipped length, open/close marks, resume offset) equals the definitional first-closing-quote scanner (backslash parity counted back to the content start, doubled delimiter skipped as a pair); kind qstr: all 223 delimiter bytes >= 33 x bodies, with/without n prefix, q or Q; kind dollar: 5 tags x bodies; bodies enumerated exhaustively over decoy alphabets and with the tail-repeat transform, longer bodies by rapid; non-trivial = body holds an escaped/doubled delimiter or >= 2 delimiters (quote), a closing byte and a quote (qstr), >= 2 '$' (dollar)")
	c.rec.Assume = []string{"token records read through VTokenize"}
	defer c.Finish()

	Lq := pick(8, 10)
	for k, m := range strModes {
		k := k
		d := string(m.delim)
		other := "\""
		if m.delim == '"' {
			other = "'"
		}
		alpha := []string{d, other, "\\", "a", " "}
		p := c.rec.NewPart("quote_"+m.name, fmt.Sprintf("every body of length 0..%d over %q, plain and tail-repeated", Lq, alpha), false, true, "")
		c.EnumSeq(p, alpha, "", 0, Lq, func(w *Worker, s string) {
			w.Judge(ev.Case{Kind: "quote", N: k, In: s})
			if len(s) >= 2 {
				w.Judge(ev.Case{Kind: "quote", N: k, In: tailRepeat(s, len(s)/2)})
			}
		})
		c.rec.Require("mode_" + m.name)
		// multi-byte characters in front of backslash runs (2-, 3- and 4-byte UTF-8, a lone high byte)
		// ... plus characters whose code point, truncated to 8 bits, is the delimiter or the backslash
		alias := map[byte]string{'\'': "\u5927", '"': "\u0122", '`': "\u0160"}[m.delim]
		alphaU := []string{d, "\\", "\xc3\xa9", "\xf0\x9f\x98\x80", "\xe2\x82\xac", "\xe9", "a", alias, "\u015c"}
		Lu := pick(5, 6)
		p = c.rec.NewPart("quote_utf8_"+m.name, fmt.Sprintf("every body of length 0..%d over {delimiter, backslash, 2-/4-/3-byte UTF-8 characters, lone 0xE9, a, a character whose code point truncates to the delimiter, one that truncates to the backslash}", Lu), false, true, "")
		c.EnumSeq(p, alphaU, "", 0, Lu, func(w *Worker, s string) { w.Judge(ev.Case{Kind: "quote", N: k, In: s}) })
	}

	// candidate quotes beyond the 31-byte token clip: pad of every length 24..40, then a backslash run, then the delimiter
	for k, m := range strModes {
		k := k
		d := string(m.delim)
		p := c.rec.NewPart("quote_beyond_clip_"+m.name, "pad a^n (n = 24..40, also with a backslash at offsets 29..31) + backslash run of 0..4 + delimiter + tail", false, true, "")
		var bodies []string
		for n := 24; n <= 40; n++ {
			pad := strings.Repeat("a", n)
			for bsn := 0; bsn <= 4; bsn++ {
				bs := strings.Repeat("\\", bsn)
				for _, tail := range []string{"", " x", d, d + " x", " " + d} {
					bodies = append(bodies, pad+bs+d+tail)
					for off := 28; off <= 32 && off < n; off++ {
						bodies = append(bodies, pad[:off]+"\\"+pad[off+1:]+bs+d+tail)
					}
				}
			}
		}
		c.ParRange(p, int64(len(bodies)), func(w *Worker, i int64) { w.Judge(ev.Case{Kind: "quote", N: k, In: bodies[i]}) })
	}

	// q-quotes: all 223 delimiter bytes
	Lb := pick(5, 6)
	p := c.rec.NewPart("qstr_all_delimiters", fmt.Sprintf("all 223 delimiter bytes 33..255 x {q,Q} x {plain, n-prefixed} x every body of length 0..%d over {open byte, close byte, quote, 'a'}", Lb), false, true, "")
	c.ParRange(p, 223*4, func(w *Worker, i int64) {
		b := byte(33 + i/4)
		flagsN := int(i%4) << 8
		alpha := []string{bs(b), bs(closeByte(b)), "'", "a"}

		if closeByte(b) == b {
			alpha = []string{bs(b), "'", "a", "\\"}
		}
		if b >= 0x80 {
			alpha = []string{bs(b), "'", "a", "\xc3", "\xe2\x82"} // a UTF-8 lead byte directly in front of the closing delimiter
		}
		var rec func(prefix string, depth int)
		rec = func(prefix string, depth int) {
			w.Judge(ev.Case{Kind: "qstr", N: int(b) | flagsN, In: prefix})
			if depth == Lb {
				return
			}
			for _, a := range alpha {
				rec(prefix+a, depth+1)
			}
		}
		rec("", 0)
	})
	c.rec.Require("qdelim_ascii", "qdelim_high")

	Ld := pick(7, 8)
	for k := 0; k < 5; k++ {
		k := k
		p = c.rec.NewPart(fmt.Sprintf("dollar_tag_%d", k), fmt.Sprintf("every body of length 0..%d over {$ a A b Z z space}", Ld), false, true, "")
		c.EnumSeq(p, []string{"$", "a", "A", "b", "Z", "z", " "}, "", 0, Ld-1, func(w *Worker, s string) { w.Judge(ev.Case{Kind: "dollar", N: k, In: s}) })
	}

	p = c.rec.NewPart("rapid_long_bodies", "rapid: mode x body of 0..60 pieces from {delimiter, other quote, backslash, letters, space, escaped/doubled delimiter} with optional tail repeat; q-strings and dollar strings likewise", true, false, "")
	c.Rapid(p, 8, pick(80000, 900000), func(rt *rapid.T, sh int) ev.Case {
		switch rapid.IntRange(0, 3).Draw(rt, "kind") {
		case 0:
			b := rapid.IntRange(33, 255).Draw(rt, "delim")
			cb := bs(closeByte(byte(b)))
			body := strings.Join(rapid.SliceOfN(rapid.SampledFrom([]string{bs(byte(b)), cb, "'", "a", cb + "'", " ", "\\"}), 0, 40).Draw(rt, "body"), "")
			return ev.Case{Kind: "qstr", N: b | rapid.IntRange(0, 3).Draw(rt, "fl")<<8, In: body}
		case 1:
			body := strings.Join(rapid.SliceOfN(rapid.SampledFrom([]string{"$", "a", "A", "b", "$a", "a$", "$a$", "$$", "$ab$", "$A$", " "}), 0, 40).Draw(rt, "body"), "")
			return ev.Case{Kind: "dollar", N: rapid.IntRange(0, 4).Draw(rt, "tag"), In: body}
		default:
			k := rapid.IntRange(0, len(strModes)-1).Draw(rt, "mode")
			d := string(strModes[k].delim)
			body := strings.Join(rapid.SliceOfN(rapid.SampledFrom([]string{d, d + d, "\\" + d, "\\\\" + d, "\\", "\\\\", "a", "b", " ", "'", "\"", "`", "union select", "--", "\x00", "\xe9"}), 0, 60).Draw(rt, "body"), "")
			if rapid.IntRange(0, 3).Draw(rt, "tr") == 0 && len(body) > 0 {
				body = tailRepeat(body, rapid.IntRange(0, len(body)-1).Draw(rt, "k"))
			}
			return ev.Case{Kind: "quote", N: k, In: body}
		}
	})
}
