package props

import (
	"go/ast"
	"go/parser"
	"go/token"
	"os"
	"path/filepath"
	"sort"
	"strconv"
	"strings"
	"sync"

	"verifh/ev"
	"verifh/gen"
)

// Source dictionary: the string and character literals of the library's own non-test source
// files in the tree under test (the same idea as a fuzzer's auto-dictionary). A word the
// scanners compare the input with is, almost always, written as a literal in their source, so
// generators that place these words behind every construct opener reach branches that are
// guarded by a word no alphabet contains. The large tables themselves (composite literals of 15
// or more elements: keyword / fingerprint table, tag, attribute and event lists) are skipped, the
// table-driven generators cover their entries; what remains is small (a few dozen words). The dictionary is an input source only: every string built
// from it is in the domain of the properties, and no oracle depends on it.
type srcDictT struct {
	SQL, HTML           []string // words (2..16 bytes, with a letter)
	SQLBytes, HTMLBytes []string // single bytes written as character or one-byte string literals
}

var (
	srcDictOnce sync.Once
	srcDictVal  srcDictT
)

func srcDict() *srcDictT {
	srcDictOnce.Do(func() {
		sql, html := map[string]bool{}, map[string]bool{}
		sqlB, htmlB := map[string]bool{}, map[string]bool{}
		files, _ := filepath.Glob(filepath.Join(repoDir, "*.go"))
		sort.Strings(files)
		for _, f := range files {
			base := filepath.Base(f)
			if strings.HasSuffix(base, "_test.go") || base == "verif_hooks.go" {
				continue
			}
			src, err := os.ReadFile(f)
			if err != nil {
				continue
			}
			fs := token.NewFileSet()
			af, err := parser.ParseFile(fs, f, src, parser.SkipObjectResolution)
			if err != nil {
				continue
			}
			into := []map[string]bool{sql, html}
			switch {
			case strings.HasPrefix(base, "sqli"):
				into = into[:1]
			case strings.HasPrefix(base, "xss"), strings.HasPrefix(base, "html5"):
				into = into[1:]
			}
			intoB := []map[string]bool{sqlB, htmlB}
			switch {
			case strings.HasPrefix(base, "sqli"):
				intoB = intoB[:1]
			case strings.HasPrefix(base, "xss"), strings.HasPrefix(base, "html5"):
				intoB = intoB[1:]
			}
			ast.Inspect(af, func(n ast.Node) bool {
				if imp, ok := n.(*ast.ImportSpec); ok && imp != nil {
					return false
				}
				if cl, ok := n.(*ast.CompositeLit); ok && len(cl.Elts) >= 15 {
					return false // the tables themselves: their entries are covered by the table-driven generators
				}
				bl, ok := n.(*ast.BasicLit)
				if !ok || (bl.Kind != token.STRING && bl.Kind != token.CHAR) {
					return true
				}
				var v string
				if bl.Kind == token.CHAR {
					r, _, _, err := strconv.UnquoteChar(strings.Trim(bl.Value, "'"), '\'')
					if err != nil {
						return true
					}
					if r < 0x100 {
						v = string([]byte{byte(r)})
					} else {
						v = string(r)
					}
				} else {
					u, err := strconv.Unquote(bl.Value)
					if err != nil {
						return true
					}
					v = u
				}
				if len(v) == 1 {
					for _, m := range intoB {
						m[v] = true
					}
					return true
				}
				if len(v) < 2 || len(v) > 16 {
					return true
				}
				letter := false
				for i := 0; i < len(v); i++ {
					if gen.IsLetter(v[i]) {
						letter = true
					}
				}
				if !letter {
					return true
				}
				for _, m := range into {
					m[v] = true
				}
				return true
			})
		}
		flat := func(m map[string]bool) []string {
			var o []string
			for k := range m {
				o = append(o, k)
			}
			sort.Strings(o)
			return o
		}
		srcDictVal = srcDictT{SQL: flat(sql), HTML: flat(html), SQLBytes: flat(sqlB), HTMLBytes: flat(htmlB)}
	})
	return &srcDictVal
}

// dictWords: every dictionary word as written, upper-cased and lower-cased (duplicates removed).
func dictWords(ws []string) []string {
	seen := map[string]bool{}
	var out []string
	for _, w := range ws {
		for _, v := range []string{w, gen.UpperASCII(w), gen.LowerASCII(w)} {
			if !seen[v] {
				seen[v] = true
				out = append(out, v)
			}
		}
	}
	return out
}

const dictHole = "\x02\x03\x02"

// dictSeq calls fn with every sequence of lo..hi symbols over {W} + alpha that contains W, for every word W.
func (c *Check) dictSeq(p *ev.Part, words, alpha []string, lo, hi int, fn func(w *Worker, s string)) {
	syms := append([]string{dictHole}, alpha...)
	c.EnumSeq(p, syms, "", lo, hi, func(w *Worker, s string) {
		if !strings.Contains(s, dictHole) {
			return
		}
		for _, wd := range words {
			fn(w, strings.ReplaceAll(s, dictHole, wd))
		}
	})
}

// SQL side: lead construct + blank? + word + blank? + every tail of 0..3 symbols
var sqlDictLeads = []string{"", "'a'", "\"a\"", "U&'a'", "u&'d!0061t'", "n'a'", "q'(a)'", "$$a$$", "$t$a$t$", "x'41'", "b'1'", "e'a'", "1", "1.5e3", "a", "@a", "`a`", "(", ")", ",", ";", "/**/", "select", "1 or", "'", "\"", "1 union select", "--", "#", "/*"}
var sqlDictTail = []string{"'", "\"", "(", "a", "1", " ", "$", "\\", "!", ")"}

func (c *Check) sqlDictInputs(p *ev.Part, maxTail int, fn func(w *Worker, s string)) {
	words := dictWords(srcDict().SQL)
	c.EnumSeq(p, sqlDictTail, "", 0, maxTail, func(w *Worker, tail string) {
		for _, wd := range words {
			for _, ld := range sqlDictLeads {
				fn(w, ld+wd+tail)
				fn(w, ld+" "+wd+" "+tail)
				fn(w, ld+" "+wd+tail)
			}
		}
	})
}

// HTML side: construct opener + every sequence of 1..4 symbols over {W} + 10 structural symbols, and of 5
// symbols over {W} + 5 symbols
var htmlDictOpeners = []string{"", "<", "<!", "<!doctype ", "<!DOCTYPE", "<a ", "<a b=", "<a href=", "</", "<!--", "<%", "<?", "<![CDATA[", "<a b='", "<a b=\"", "<script "}
var htmlDictAlpha = []string{">", "\"", "'", " ", "=", "x", "/", "-", ";", "`"}

func (c *Check) htmlDictInputs(p *ev.Part, fn func(w *Worker, s string)) {
	words := dictWords(srcDict().HTML)
	each := func(w *Worker, s string) {
		for _, op := range htmlDictOpeners {
			fn(w, op+s)
		}
	}
	c.dictSeq(p, words, htmlDictAlpha, 1, 4, each)
	c.dictSeq(p, words, htmlDictAlpha[:5], 5, 5, each)
}

// nearMissWords: every dictionary word (as written, upper, lower) with exactly one byte replaced by its
// neighbour under the case bit (b^0x20: 'a'<->'A', '_'<->0x7f, '@'<->'`', '['<->'{') or under the high bit
// (b^0x80). A comparison that normalises a byte range one byte too wide or too narrow, or masks a bit without
// testing the range, accepts or rejects exactly such a word. Input source only; no oracle depends on it.
func nearMissWords(ws []string) []string {
	seen := map[string]bool{}
	for _, w := range dictWords(ws) {
		seen[w] = true
	}
	var out []string
	for _, w := range dictWords(ws) {
		for i := 0; i < len(w); i++ {
			for _, x := range []byte{0x20, 0x80} {
				b := []byte(w)
				b[i] ^= x
				v := string(b)
				if !seen[v] {
					seen[v] = true
					out = append(out, v)
				}
			}
		}
	}
	return out
}

// SQL side: lead construct + blank? + near-miss word + blank? + every tail of 0..1 symbols
func (c *Check) sqlNearMissInputs(p *ev.Part, fn func(w *Worker, s string)) {
	words := nearMissWords(srcDict().SQL)
	tails := append([]string{""}, sqlDictTail...)
	c.ParRange(p, int64(len(words)), func(w *Worker, i int64) {
		wd := words[i]
		for _, tail := range tails {
			for _, ld := range sqlDictLeads {
				fn(w, ld+wd+tail)
				fn(w, ld+" "+wd+" "+tail)
				fn(w, ld+" "+wd+tail)
			}
		}
	})
}

// HTML side: construct opener + every sequence of 1..2 symbols over {W} + 10 structural symbols that contains W
func (c *Check) htmlNearMissInputs(p *ev.Part, fn func(w *Worker, s string)) {
	words := nearMissWords(srcDict().HTML)
	c.dictSeq(p, words, htmlDictAlpha, 1, 2, func(w *Worker, s string) {
		for _, op := range htmlDictOpeners {
			fn(w, op+s)
		}
	})
}

// extraBytes: the single bytes the source writes as literals that the byte-class alphabet does not contain.
// A byte the scanners start to treat specially is, almost always, a character literal in their source.
func extraBytes(src, alpha []string) []string {
	in := map[string]bool{}
	for _, a := range alpha {
		in[a] = true
	}
	var out []string
	for _, b := range src {
		if !in[b] {
			out = append(out, b)
		}
	}
	return out
}

// srcByteInputs: every string of 0..maxLen core symbols with one extra byte inserted at every position, and
// every hostile construct opener followed by the extra byte at the end of the input and before one more byte.
func (c *Check) srcByteInputs(p *ev.Part, extras, core []string, maxLen int, hostile []string, fn func(w *Worker, s string)) {
	c.EnumSeq(p, core, "\x00\x01", 0, maxLen, func(w *Worker, joined string) {
		var syms []string
		if joined != "" {
			syms = strings.Split(joined, "\x00\x01")
		}
		for _, b := range extras {
			for pos := 0; pos <= len(syms); pos++ {
				fn(w, strings.Join(syms[:pos], "")+b+strings.Join(syms[pos:], ""))
			}
		}
	})
	c.ParRange(p, int64(len(hostile)), func(w *Worker, i int64) {
		h := hostile[i]
		for _, b := range extras {
			for _, pre := range []string{"", " ", "1 ", "'", "a"} {
				fn(w, pre+h+b)
				fn(w, pre+h+b+"a")
				fn(w, pre+h+b+" ")
				fn(w, pre+h+" "+b)
			}
		}
	})
}
