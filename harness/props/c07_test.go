package props

import (
	"fmt"
	"strings"
	"sync"
	"testing"

	lib "github.com/corazawaf/libinjection-go"
	"pgregory.net/rapid"
	"verifh/ev"
	"verifh/gen"
	"verifh/refxss"
)

// C07 - HTML5 tokenizer and XSS classifier conform to the reference.

func init() { registry["C07"] = c07Oracle }

var ctxNames = []string{"data", "unquoted", "single", "double", "back"}

func showH5(t []lib.VH5Token) string {
	s := ""
	for _, x := range t {
		s += fmt.Sprintf("(%d@%d+%d)", x.Type, x.Off, x.Len)
	}
	return s
}

func showH5Ref(t []refxss.Tok) string {
	s := ""
	for _, x := range t {
		s += fmt.Sprintf("(%d@%d+%d)", int(x.K), x.Off, x.Len)
	}
	return s
}

func c07Oracle(c ev.Case) Res {
	in := c.In
	switch c.Kind {
	case "tag":
		if a, b := lib.VIsBlackTag(in), xlists().BlackTag(in); a != b {
			return fail("black-tag predicate impl=%v ref=%v", a, b)
		}
		return Res{NT: xlists().BlackTag(in) || len(in) >= 3, Class: "leaf_tag"}
	case "attr":
		if a, b := lib.VIsBlackAttr(in), int(xlists().BlackAttr(in)); a != b {
			return fail("black-attribute predicate impl=%d ref=%d", a, b)
		}
		return Res{NT: xlists().BlackAttr(in) != refxss.None || len(in) >= 2, Class: "leaf_attr"}
	case "url":
		if a, b := lib.VIsBlackURL(in), refxss.BlackURL(in, false); a != b {
			return fail("URL predicate impl=%v ref=%v", a, b)
		}
		return Res{NT: len(in) >= 4, Class: "leaf_url"}
	case "decode":
		a1, a2 := lib.VHTMLDecode(in)
		b1, b2 := refxss.Decode(in)
		if a1 != b1 || a2 != b2 {
			return fail("decoder impl=(%d,%d) ref=(%d,%d)", a1, a2, b1, b2)
		}
		return Res{NT: len(in) >= 3 && in[0] == '&' && in[1] == '#', Class: "leaf_decode"}
	}
	res := Res{}
	for ctx := 0; ctx < 5; ctx++ {
		it := lib.VH5Tokens(in, ctx, len(in)+3)
		rt := refxss.Tokens(in, refxss.Ctx(ctx), len(in)+3)
		if len(it) != len(rt) {
			return fail("ctx %s: token streams differ impl=%s ref=%s", ctxNames[ctx], showH5(it), showH5Ref(rt))
		}
		for i := range it {
			if it[i].Type != int(rt[i].K) || it[i].Off != rt[i].Off || it[i].Len != rt[i].Len {
				return fail("ctx %s: token %d differs impl=%s ref=%s", ctxNames[ctx], i, showH5(it), showH5Ref(rt))
			}
			if rt[i].K != refxss.DataText {
				res.NT = true
			}
		}
		if a, b := lib.VIsXSSCtx(in, ctx), xlists().IsXSSCtx(in, refxss.Ctx(ctx)); a != b {
			return fail("ctx %s: verdict impl=%v ref=%v", ctxNames[ctx], a, b)
		} else if a {
			res.Class = "verdict_true"
		}
	}
	if a, b := lib.IsXSS(in), xlists().IsXSS(in); a != b {
		return fail("IsXSS impl=%v ref=%v", a, b)
	}
	if res.Class == "" {
		res.Class = "verdict_false"
	}
	return res
}

func htmlCase(in string) ev.Case { return ev.Case{Kind: "diff", In: in} }

// htmlBoundaryInputs: inputs aimed at exact lengths and counts - names stuffed with NUL runs
// of 1..100 bytes, short comment tokens (4..6 bytes) with the IE/XML/IMPORT/ENTITY markers,
// case-folding code points inside comments, structural bytes occurring exactly 255/256/257
// times, lower-case CDATA openers in front of vectors, alias runes after attribute names.
var (
	htmlBoundaryOnce sync.Once
	htmlBoundaryVal  []string
)

func htmlBoundaryInputs() []string {
	htmlBoundaryOnce.Do(func() {
		seen := map[string]bool{}
		add := func(s string) {
			if !seen[s] {
				seen[s] = true
				htmlBoundaryVal = append(htmlBoundaryVal, s)
			}
		}
		nulRuns := []int{1, 2, 7, 30, 40, 44, 45, 46, 47, 48, 49, 50, 64, 100}
		for _, n := range nulRuns {
			z := strings.Repeat("\x00", n)
			for _, name := range []string{"onerror", "onwebkitcurrentplaybacktargetiswirelesschanged", "href", "style", "xmlns", "by", "attributename", "xlink:href"} {
				for _, pos := range []int{1, 2, len(name) / 2, len(name) - 1} {
					nm := name[:pos] + z + name[pos:]
					add("<img src=x " + nm + "=javascript:alert(1)>")
					add("<a " + nm + "=onclick>")
					add("' " + nm + "=javascript:x '")
				}
			}
			for _, tag := range []string{"script", "iframe", "xml", "style", "svt"} {
				add("<" + tag[:1] + z + tag[1:] + ">")
				add("<" + tag[:len(tag)-1] + z + tag[len(tag)-1:] + " x>")
			}
		}
		// short and boundary-length comment tokens
		for _, op := range [][2]string{{"<!--", "-->"}, {"<!", ">"}, {"<?", ">"}, {"<%", "%>"}, {"</ ", ">"}, {"<!--", ""}, {"<?", ""}} {
			for _, body := range []string{"xml", "xml ", "xmlx", "xml x", "XML ", "xMl ", "[if]", "[if ]", "[IF]", "[iF]x", "[if", "[i", "import", "IMPORT", "impor", "import x", "i\x00mport", "entity", "ENTITY x", "entit", "`", "a`", "abc`",
				"\xc4\xb1abcd", "\xc5\xbfcrip", "\xc4\xb1\xc5\xbf", "\xc4\xb1mport", "[\xc4\xb1f]", "ent\xc4\xb1ty", "x\xc4\xb1", "abc\xc5\xbf", "\xe1\xbe\xbea", "\xc4\xb1\xc4\xb1\xc4\xb1"} {
				add(op[0] + body + op[1])
				add("x" + op[0] + body + op[1] + "y")
			}
		}
		// structural bytes occurring exactly 255 / 256 / 257 / 512 times around a vector seen by one pass only
		for _, v := range []string{"<script>alert(1)</script>", "\" onerror=alert(1) x=\"", "' onerror=alert(1) x='", "` onerror=alert(1) x=`", "x onerror=alert(1)", "<a href=javascript:x>", "hello"} {
			for _, unit := range []string{"<b>", "<", "=", " a=b", "'", "\"", "`", "' ", "\" ", "</b>", ">"} {
				for _, total := range []int{255, 256, 257, 512} {
					b := unit[len(unit)-1]
					if unit == " a=b" {
						b = '='
					}
					if unit == "<b>" || unit == "</b>" {
						b = '<'
					}
					cnt := strings.Count(v, string(b))
					if k := total - cnt; k > 0 {
						add(v + strings.Repeat(unit, k))
						add(strings.Repeat(unit, k) + v)
					}
				}
			}
		}
		// total lengths at 8- and 16-bit boundaries
		for _, n := range []int{255, 256, 257, 65535, 65536, 65537} {
			for _, v := range []string{"<script>", "' onerror=1 '", "<a href=javascript:x>"} {
				add(strings.Repeat("a", n-len(v)) + v)
				add(v + strings.Repeat("a", n-len(v)))
			}
		}
		// constructs at offsets and behind token counts around the 8- and 16-bit boundaries
		ovec := []string{"<script>", "<a href=javascript:x>", " onerror=1 ", "' onclick=1 '", "<!--x--><svg onload=1>", "<a b='c' style=x>", "<![CDATA[x]]><iframe>", "<?import x>", "<a href=&#106;avascript:x>", "`><xss>"}
		for _, n := range []int{250, 251, 252, 253, 254, 255, 256, 257, 258, 259, 260, 511, 512, 513, 65534, 65535, 65536, 65537} {
			for vi, v := range ovec {
				if n > 1000 && vi > 3 {
					break
				}
				add(strings.Repeat("a", n) + v)
				add("<!--" + strings.Repeat("a", n-7) + "-->" + v)
				add("<a title='" + strings.Repeat("a", n-12) + "'>" + v)
				add("<a " + strings.Repeat(" ", n-3) + v)
				add("<a b=" + strings.Repeat("a", n-5) + v)
				add(strings.Repeat("a", n-1) + "'" + v)
			}
		}
		for _, n := range []int{6, 7, 8, 15, 16, 17, 31, 32, 33, 63, 64, 65, 127, 128, 129, 255, 256, 257, 1023, 1024, 1025} {
			for _, v := range ovec[:6] {
				for _, unit := range []string{"<b>", "<b/>", "</b>", "a=b ", "a='b' ", "<!---->", "<b c=d>", "x>", "<b c>"} {
					add(strings.Repeat(unit, n) + v)
					add("<a " + strings.Repeat(unit, n) + v)
				}
			}
		}
		// numeric character references at every decoder limit inside URL attribute values, not in leading position
		for _, ref := range decoderBoundaryRefs() {
			add("<a href=\"x" + ref + "\">")
			add("<a href=" + ref + "avascript:x>")
			add("' src='j" + ref + "' ")
			add("<a href=\"" + ref + "avascript:alert(1)\">")
		}
		// a byte-order mark (and other multi-byte prefixes) at offset 0 of vectors of every context
		for _, v := range []string{"'onerror=alert(1)", "' onerror=alert(1) x='", "\"onerror=alert(1)", "`onerror=alert(1)", "onerror=alert(1)", " onerror=alert(1)", "<script>", "'><script>", "x' onclick=1 '", "href=javascript:x", "><script>", "/><xss>"} {
			for _, pre := range []string{gen.BOM, gen.BOM + gen.BOM, "\xc3\xa9", "\xef\xbb", "\xfe\xff"} {
				add(pre + v)
			}
		}
		for _, n := range []int{4100, 70000} {
			z := strings.Repeat("\x00", n)
			add("<scr" + z + "ipt>")
			add("<img src=x on" + z + "error=alert(1)>")
			add("' hr" + z + "ef=javascript:x '")
		}
		// very long inputs
		for _, n := range []int{1<<20 + 1, 4<<20 + 33, 16<<20 + 7} {
			add(strings.Repeat("a", n) + "<script>alert(1)</script>")
			add("<a title='" + strings.Repeat("a", n) + "' href=javascript:alert(1)>")
		}
		// very long inputs whose attack shows in one start context only
		for _, n := range []int{65536 + 1, 1<<20 + 1, 4<<20 + 33} {
			pad := strings.Repeat("lorem ipsum ", n/12+1)[:n]
			for _, v := range []string{"\" onmouseover=alert(1) x=\"", "' onerror=alert(1) x='", "` onload=alert(1) x=`", " onclick=alert(1) ", "'><script>"} {
				add(pad + v)
			}
		}
		// characters whose case mapping changes their UTF-8 length, in names, comments and values
		for _, r := range caseLengthChangers() {
			w5 := strings.Repeat(r, 5)
			for _, t := range []string{"<W>", "<a W=x>", "<!--W-->", "<?W", "<![W]>", "<a href=W:x>", "' W=x '", "<scr" + r + "pt>", "<a on" + r + "lick=1>", "<!--[" + r + "f]>", "<?" + r + "ml >"} {
				add(strings.ReplaceAll(t, "W", w5))
				add(strings.ReplaceAll(t, "W", r))
			}
		}
		// look-alike characters in place of the structural bytes, and fullwidth names
		for _, v := range []string{"<script>alert(1)</script>", "<style>", "x onerror=alert(1)", "' onclick=1 '", "<a href=javascript:x>", "<img src=x onerror=1>", "style=x", "\" onload=1 \"", "<!--x--><script>", "<!doctype html>"} {
			for k := 0; k < 4; k++ {
				add(gen.Confuse(v, k))
				add("text " + gen.Confuse(v, k) + " more")
			}
			add(gen.Fullwidth(v))
			add(gen.Confuse(gen.Fullwidth(v), 0))
		}
		// numeric references above 0xFF whose low byte is the letter that would complete a scheme
		for _, sc := range []string{"javascript:", "data:", "vbscript:", "view-source:"} {
			for i := 0; i < len(sc)-1; i++ {
				for _, k := range []int{1, 2, 256, 4096} {
					ref := fmt.Sprintf("&#%d;", int(sc[i])+256*k)
					refx := fmt.Sprintf("&#x%x;", int(sc[i])+256*k)
					add("<a href=\"" + sc[:i] + ref + sc[i+1:] + "alert(1)\">")
					add("<a href=" + sc[:i] + refx + sc[i+1:] + "x>")
				}
			}
		}
		// CDATA opener case variants in front of vectors
		for _, cd := range []string{"<![cdata[", "<![CData[", "<![cDATA[", "<![CDATA["} {
			for _, v := range []string{"<script>alert(1)</script>", " a='><script>alert(1)</script>'", ">x<iframe>", "]]><script>"} {
				add(cd + v)
				add(cd + v + "]]>")
				add(cd + ">" + v + "]]>")
			}
		}
		// alias runes (low byte = a structural ASCII byte) after attribute names and inside tags
		for _, r := range gen.RuneAliases {
			for _, t := range []string{"onclick " + r + "x", "onclick" + r + "alert(1)", "x` href " + r + "javascript:void(0)", "<a href" + r + "javascript:x>", r + "script>", "<a " + r + "onclick" + r + "1>", "style " + r + " x"} {
				add(t)
			}
		}
		// URL values in which the black word follows a failed partial match of itself, sits in the middle or at
		// the end of the value, and scheme words followed by realistic bodies
		for _, wd := range []string{"java", "data", "vbscript", "view-source", "javascript:", "data:", "vbscript:", "view-source:"} {
			var vals []string
			for p := 1; p < len(wd); p++ {
				vals = append(vals, wd[:p]+wd, wd[:p]+wd[:p]+wd, wd[:p]+" "+wd)
			}
			vals = append(vals, "x"+wd, "http://x/"+wd, "http://x/meta"+wd, strings.Repeat("a", 300)+wd, wd[:len(wd)-1], wd[1:], wd+wd)
			for _, rest := range []string{"void(0)", "void(0);alert(1)", "alert('&#8364;')", "&#256;", "//", ""} {
				vals = append(vals, wd+rest)
			}
			for _, v := range vals {
				for _, cv := range []string{v, gen.UpperASCII(v), strings.ToUpper(v[:1]) + v[1:]} {
					add("<a href=\"" + cv + "\">")
					add("<a href=" + cv + ">")
					add("' src='" + cv + "' ")
					add("<form action=" + cv + " x=y>")
				}
			}
		}
		// structural bytes written in the encodings that surround HTML in practice (URL, %u, references,
		// JavaScript / CSS / octal escapes, UTF-7, overlong UTF-8): plain text for the library
		evec := []string{"<script>alert(1)</script>", "<img src=x onerror=alert(1)>", "x onerror=alert(1) ", "' onclick=1 '", "\" onload=1 \"", "<a href=javascript:x>", "<style>", "{\"comment\":\"<script>\"}", "x><svg onload=1>", "<!--x--><iframe>", "style=x", "href=javascript:alert(1)"}
		for _, v := range evec {
			for k := 0; k < 21; k++ {
				add(gen.Encode(v, "<", k))
				add(gen.Encode(v, "=", k))
				add(gen.Encode(v, "<>", k))
				add(gen.Encode(v, "<>=", k))
				add(gen.Encode(v, "'\"", k))
				add(gen.Encode(v, "<>='\" /", k))
				add("text " + gen.Encode(v, "<=", k) + " more")
			}
		}
		// characters the Unicode-aware library helpers class with ASCII blanks, digits and letters, in
		// front of, behind and in place of the blanks of short vectors (all five start contexts are judged)
		uvec := []string{"onclick=alert(1)", "style=bold", "href=javascript:void(0)", "<script>", "<a href=javascript:x>", "<img src=x onerror=1>", "x' onclick=y ", "x\" onload=1 ", "x` style=1 ", "<!doctype html>", "<a b=c onclick=1>", "&#106;avascript:x", "<a href=&#106;avascript:x>", "plain text", "x"}
		for _, lists := range [][]string{gen.UnicodeSpaces, gen.UnicodeDigits, gen.UnicodeLetters} {
			for _, u := range lists {
				for _, v := range uvec {
					add(u + v)
					add(v + u)
					add(u + " " + v)
					add(" " + u + v)
					add(strings.ReplaceAll(v, " ", u))
					add(strings.ReplaceAll(v, "=", u+"="))
					add(strings.ReplaceAll(v, "=", "="+u))
					add(strings.ReplaceAll(v, "1", u))
				}
			}
		}
	})
	return htmlBoundaryVal
}

var htmlAtoms = []string{"<", ">", "/", "=", "'", "\"", "`", "!", "-", "?", "%", "[", "]", "&#", ";", "x", "a", "\x00", " ", "\n",
	"<!--", "-->", "<![CDATA[", "]]>", "<%", "%>", "<!doctype", "<script", "<a ", "href", "onclick", "style", "javascript:", "xmlns", "attributename", "[if", "xml", "import", "entity", "<svt", "by", "&#x6a;"}

func htmlTruncationInputs() []string {
	forms := []string{"<![CDATA[a]]>b", "<%a%>b", "<!--a-->b", "<!--a-!>b", "<!--a-\x00->b", "<!a>b", "<?a>b", "<?xml a>", "<!doctype a>b", "<!DOCTYPE", "&#x6a;", "&#106;", "<a b='c'>d", "<a b=\"c\">d", "<a b=`c`>d", "<a b=c>d",
		"<a/>b", "<a b/>", "</a>b", "</>", "<a\x00b c\x00d=e>", "<script>", "<a href=javascript:x>", "<a onclick=x>", "<a style=x>", "<!ENTITY a>", "<?import a>", "<!--[if a]>", "<a xmlns=x>", "<set attributename=onclick>", "<a href=&#x6a;ava>"}
	ctx := []string{"", "x", ">", "'>", "\">", "`>", " ", "a=", "a='", "<a ", "-->"}
	seen := map[string]bool{}
	var out []string
	add := func(s string) {
		if !seen[s] {
			seen[s] = true
			out = append(out, s)
		}
	}
	for _, f := range forms {
		for _, c := range ctx {
			for k := 0; k <= len(f); k++ {
				add(c + f[:k])
			}
		}
	}
	for _, s := range corp().HTML {
		for k := 0; k <= len(s) && k < 300; k++ {
			add(s[:k])
		}
	}
	return out
}

// nameGen draws tag / attribute names near the black lists: a listed name or a
// near miss, with NULs, case changes and an occasional extra byte.
func nameGen(names []string) *rapid.Generator[string] {
	return rapid.Custom(func(t *rapid.T) string {
		var s string
		switch rapid.IntRange(0, 5).Draw(t, "src") {
		case 0:
			s = gen.HTMLInput().Draw(t, "free")
			if len(s) > 12 {
				s = s[:12]
			}
		case 1:
			s = "on" + rapid.SampledFrom(names).Draw(t, "n")
		default:
			s = rapid.SampledFrom(names).Draw(t, "n")
		}
		b := []byte(s)
		for i := range b {
			if gen.IsLetter(b[i]) && rapid.IntRange(0, 3).Draw(t, "c") == 0 {
				b[i] ^= 0x20
			}
		}
		s = string(b)
		for k := rapid.IntRange(0, 2).Draw(t, "edits"); k > 0; k-- {
			pos := rapid.IntRange(0, len(s)).Draw(t, "p")
			switch rapid.IntRange(0, 3).Draw(t, "e") {
			case 0:
				s = s[:pos] + "\x00" + s[pos:]
			case 1:
				s = s[:pos] + string([]byte{rapid.Byte().Draw(t, "b")}) + s[pos:]
			case 2:
				if pos < len(s) {
					s = s[:pos] + s[pos+1:]
				}
			case 3:
				s = s[:pos]
			}
		}
		return s
	})
}

func allNames() (tags, attrs, events []string) {
	for _, t := range lib.VBlackTags() {
		tags = append(tags, t)
	}
	tags = append(tags, "SVT", "XSL", "SVG", "XSLT", "A", "IMG", "ab", "abc")
	for _, a := range lib.VBlackAttrs() {
		attrs = append(attrs, a.Name)
	}
	attrs = append(attrs, "XMLNS", "XLINK", "XMLNSX", "ON", "ONX", "CLASS", "ID", "X")
	for _, e := range lib.VBlackEvents() {
		events = append(events, e.Name)
	}
	return
}

var decodeAlpha = []string{"&", "#", "x", "X", ";", "0", "1", "9", "a", "f", "F", "g", "j"}

func TestC07(t *testing.T) {
	c := NewCheck(t, "C07", "cases are byte strings judged in all 5 start contexts (token type/offset/length streams, per-context verdict, IsXSS) against the reference model, plus generated names/values for the four leaf predicates (black tag, black attribute, black URL, entity decoder); enumerated parts are duplicate-free, random parts deduplicated by FNV-64; non-trivial = some context produces a non-text token (leaf cases: the name/value is long enough to reach the comparison)")
	c.rec.Assume = []string{"reference model refxss (explicit state enum, naive terminator search; shares only the black lists obtained through the accessors)", "port-specific rules P2,P3,P4 of DESIGN.md section 3", "inputs containing U+017F/U+0131/U+212A/U+0130 are excluded"}
	defer c.Finish()

	judge := func(w *Worker, s string) {
		if gen.HasUnicodeFold(s) {
			w.l.Class("excluded_unicode_fold", 1)
			return
		}
		w.Judge(htmlCase(s))
	}
	L := pick(4, 5)
	p := c.rec.NewPart("bytes_exhaustive", fmt.Sprintf("every string of length 0..%d over the %d-symbol HTML alphabet", L, len(gen.AlphaHTML)), false, true, "")
	c.EnumSeq(p, gen.AlphaHTML, "", 0, L, judge)
	Lc := pick(6, 7)
	p = c.rec.NewPart("bytes_core_exhaustive", fmt.Sprintf("every string of length %d..%d over the %d-symbol core alphabet", L+1, Lc, len(gen.CoreHTML)), false, true, "")
	c.EnumSeq(p, gen.CoreHTML, "", L+1, Lc, judge)
	La := pick(3, 4)
	p = c.rec.NewPart("atoms_exhaustive", fmt.Sprintf("every concatenation of 1..%d atoms over %d markup atoms", La, len(htmlAtoms)), false, true, "")
	c.EnumSeq(p, htmlAtoms, "", 1, La, judge)

	tr := htmlTruncationInputs()
	p = c.rec.NewPart("truncations", "every prefix of every markup construct behind 11 contexts, every prefix of every corpus input", false, true, "")
	c.ParRange(p, int64(len(tr)), func(w *Worker, i int64) { judge(w, tr[i]) })

	hb := htmlBoundaryInputs()
	p = c.rec.NewPart("boundary_inputs", "NUL runs of 1..100 bytes inside names; 4..6-byte comment tokens with IE/XML/IMPORT/ENTITY markers and case-folding code points; structural bytes exactly 255/256/257/512 times; total lengths 255..257 and 65535..65537; CDATA opener case variants; alias runes after names", false, true, "")
	c.ParRange(p, int64(len(hb)), func(w *Worker, i int64) { judge(w, hb[i]) })

	p = c.rec.NewPart("source_bytes", fmt.Sprintf("bytes the XSS source files write as literals and the byte-class alphabet lacks, inserted at every position of every string of 0..%d core symbols, and behind every hostile construct opener at the end of the input", 3), false, true, "")
	c.srcByteInputs(p, extraBytes(srcDict().HTMLBytes, gen.AlphaHTML), gen.CoreHTML, 3, htmlHostile, judge)
	p = c.rec.NewPart("source_dictionary", fmt.Sprintf("%d construct openers x every sequence of 1..4 symbols over {W} + %q (5 symbols over {W} + the first five) that contains W, for each word W (as written, upper, lower) that occurs as a literal in the XSS source files and is not a list entry", len(htmlDictOpeners), htmlDictAlpha), false, true, "")
	c.htmlDictInputs(p, judge)
	p = c.rec.NewPart("source_dictionary_near_miss", fmt.Sprintf("the source-dictionary words with exactly one byte replaced by its neighbour under the case bit (b^0x20) or the high bit (b^0x80), behind the same %d construct openers in every sequence of 1..2 symbols over {W} + %q that contains W", len(htmlDictOpeners), htmlDictAlpha), false, true, "")
	c.htmlNearMissInputs(p, judge)
	p = c.rec.NewPart("pass_leak_atoms_exhaustive", "every concatenation of 1..4 (thorough 5) pass-leak atoms (see C13)", false, true, "")
	c.EnumSeq(p, passLeakAtoms, "", 1, pick(4, 5), judge)

	// decoder: exhaustive over its alphabet
	Ld := pick(6, 7)
	p = c.rec.NewPart("decoder_exhaustive", fmt.Sprintf("decoder differential on every string of length 0..%d over %v", Ld, decodeAlpha), false, true, "")
	c.EnumSeq(p, decodeAlpha, "", 0, Ld, func(w *Worker, s string) { w.Judge(ev.Case{Kind: "decode", In: s}) })

	p = c.rec.NewPart("rapid_fragments", "rapid over the HTML fragment grammar", true, false, "")
	g := gen.HTMLInput()
	c.Rapid(p, 8, pick(60000, 1500000), func(rt *rapid.T, sh int) ev.Case {
		s := g.Draw(rt, "in")
		if gen.HasUnicodeFold(s) {
			s = ""
		}
		return htmlCase(s)
	})
	p = c.rec.NewPart("rapid_corpus_mutation", "rapid: a repository HTML fixture or XSS payload with 1-4 edits", true, false, "")
	c.Rapid(p, 4, pick(40000, 600000), func(rt *rapid.T, sh int) ev.Case {
		s := gen.Mutate(rt, rapid.SampledFrom(corp().HTML).Draw(rt, "base"), gen.FragHTML)
		if gen.HasUnicodeFold(s) {
			s = ""
		}
		return htmlCase(s)
	})
	tags, attrs, events := allNames()
	p = c.rec.NewPart("rapid_leaf_predicates", "rapid: names near the black lists (listed name / near miss, NULs, case, edits) and URL values, judged by the leaf predicates", true, false, "")
	tg, ag, eg := nameGen(tags), nameGen(attrs), nameGen(events)
	ug := urlValueGen()
	c.Rapid(p, 4, pick(40000, 600000), func(rt *rapid.T, sh int) ev.Case {
		var cs ev.Case
		switch rapid.IntRange(0, 3).Draw(rt, "leaf") {
		case 0:
			cs = ev.Case{Kind: "tag", In: tg.Draw(rt, "name")}
		case 1:
			cs = ev.Case{Kind: "attr", In: ag.Draw(rt, "name")}
		case 2:
			cs = ev.Case{Kind: "attr", In: "on" + eg.Draw(rt, "name")}
		default:
			cs = ev.Case{Kind: "url", In: ug.Draw(rt, "v")}
		}
		if gen.HasUnicodeFold(cs.In) {
			cs.In = ""
		}
		return cs
	})
	c.rec.Require("verdict_true", "verdict_false", "leaf_tag", "leaf_attr", "leaf_url", "leaf_decode")
}

// urlValueGen draws URL attribute values: a scheme (or near miss) with
// per-byte encodings, leading junk and embedded NUL / LF.
func urlValueGen() *rapid.Generator[string] {
	schemes := []string{"javascript:", "vbscript:", "data:", "view-source:", "java", "jav", "dat", "http://", "metadata", "x", ""}
	return rapid.Custom(func(t *rapid.T) string {
		sc := rapid.SampledFrom(schemes).Draw(t, "scheme")
		var out []byte
		for k := rapid.IntRange(0, 2).Draw(t, "junk"); k > 0; k-- {
			out = append(out, rapid.SampledFrom([]string{" ", "\t", "\x00", "\x7f", "\x80", "\xff", "\x01", "&#9;", "&#x20;", "&#0;", "a", "&"}).Draw(t, "j")...)
		}
		for i := 0; i < len(sc); i++ {
			out = append(out, encodeByte(t, sc[i], i+1 < len(sc) && isHex(sc[i+1]), i+1 < len(sc) && sc[i+1] >= '0' && sc[i+1] <= '9')...)
			if rapid.IntRange(0, 7).Draw(t, "ins") == 0 {
				out = append(out, rapid.SampledFrom([]string{"\x00", "\n", "&#0;", "&#10;", "&#x0A;", " ", "\t"}).Draw(t, "i")...)
			}
		}
		out = append(out, rapid.SampledFrom([]string{"", "alert(1)", "x", "&#", "&#x", "&#x1000ff;", "&#1114112;"}).Draw(t, "rest")...)
		return string(out)
	})
}

func isHex(b byte) bool {
	return (b >= '0' && b <= '9') || ((b|0x20) >= 'a' && (b|0x20) <= 'f')
}

// encodeByte draws one of the encodings of C19 for byte b.
func encodeByte(t *rapid.T, b byte, nextHex, nextDigit bool) string {
	switch rapid.IntRange(0, 7).Draw(t, "enc") {
	case 0, 1:
		return string([]byte{b})
	case 2:
		if gen.IsLetter(b) {
			return string([]byte{b ^ 0x20})
		}
		return string([]byte{b})
	case 3:
		return fmt.Sprintf("&#%d;", b)
	case 4:
		if !nextDigit {
			return fmt.Sprintf("&#%d", b)
		}
		return fmt.Sprintf("&#%d;", b)
	case 5:
		return fmt.Sprintf("&#%s%d;", "00000"[:rapid.IntRange(1, 5).Draw(t, "z")], b)
	case 6:
		if rapid.Bool().Draw(t, "X") {
			return fmt.Sprintf("&#X%X;", b)
		}
		return fmt.Sprintf("&#x%x;", b)
	default:
		if !nextHex {
			return fmt.Sprintf("&#x%x", b)
		}
		return fmt.Sprintf("&#x%x;", b)
	}
}
