module verifh

go 1.23

require (
	github.com/corazawaf/libinjection-go v0.0.0
	pgregory.net/rapid v1.3.0
)

replace github.com/corazawaf/libinjection-go => /repo
