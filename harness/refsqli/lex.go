// Package refsqli is an independently written executable specification of the
// libinjection SQLi algorithm (tokenizer, folder, fingerprint, decision).
// It works on byte offsets only and shares nothing with the port but the
// keyword table, which is passed in.
package refsqli

const (
	QNone   = 1
	QSingle = 2
	QDouble = 4
	ANSI    = 8
	MySQL   = 16
)

const tokMax = 32 // value clipped to tokMax-1 bytes

type Tok struct {
	Cat         byte
	Pos, Len    int // Len is the clipped length
	Cnt         int
	Open, Close byte
	Val         string
}

type Stats struct{ DDX, Hash, Folds, Tokens int }

// Deltas: places where the Go port knowingly differs from upstream C; each
// can be switched to upstream behaviour to measure the difference.
type Deltas struct {
	VarNulDelim     bool // upstream: NUL terminates an @variable name
	WhitelistSlashC bool // upstream: "1c" fast-accept tests val[0]=='/' (port: !=)
	CStrVals        bool // upstream: strchr/strcmp on token values stop at NUL
}

type Lexer struct {
	in    string
	n     int
	pos   int
	flags int
	kw    map[string]byte
	st    Stats
	D     Deltas
}

func NewLexer(in string, flags int, kw map[string]byte, d Deltas) *Lexer {
	if flags == 0 {
		flags = QNone | ANSI
	}
	return &Lexer{in: in, n: len(in), flags: flags, kw: kw, D: d}
}

func up(b byte) byte {
	if b >= 'a' && b <= 'z' {
		return b - 32
	}
	return b
}

func upper(s string) string {
	bs := []byte(s)
	for i, b := range bs {
		bs[i] = up(b)
	}
	return string(bs)
}

func (lx *Lexer) look(word string) byte {
	return lx.kw[upper(word)]
}

func mk(cat byte, pos, length int, src string) Tok {
	// src begins at the token's first byte
	l := length
	if l >= tokMax {
		l = tokMax - 1
	}
	return Tok{Cat: cat, Pos: pos, Len: l, Val: src[:l]}
}

func isWhite(b byte) bool {
	switch b {
	case ' ', '\t', '\n', '\v', '\f', '\r', 0xA0, 0x00:
		return true
	}
	return false
}

func inSet(b byte, set string) bool {
	for i := 0; i < len(set); i++ {
		if set[i] == b {
			return true
		}
	}
	return false
}

const wordDelims = " []{}<>:\\?=@!#~+-*/&|^%(),';\t\n\v\f\r\"\xa0\x00"
const varDelims = " <>:\\?=@!#~+-*/&|^%(),';\t\n\v\f\r'`\""

// span: number of leading bytes of s[from:] that are in set
func (lx *Lexer) span(from int, set string) int {
	i := from
	for i < lx.n && inSet(lx.in[i], set) {
		i++
	}
	return i - from
}

// cspan: number of leading bytes of s[from:] that are NOT in set
func (lx *Lexer) cspan(from int, set string) int {
	i := from
	for i < lx.n && !inSet(lx.in[i], set) {
		i++
	}
	return i - from
}

func index(h, needle string) int {
	// naive search, deliberately simple
	for i := 0; i+len(needle) <= len(h); i++ {
		if h[i:i+len(needle)] == needle {
			return i
		}
	}
	return -1
}

// Next returns the next token; ok=false at end of input.
func (lx *Lexer) Next() (Tok, bool) {
	if lx.n == 0 {
		return Tok{}, false
	}
	if lx.pos == 0 && lx.flags&(QSingle|QDouble) != 0 {
		d := byte('\'')
		if lx.flags&QSingle == 0 {
			d = '"'
		}
		t, np := lx.quoted(0, 0, d)
		lx.pos = np
		lx.st.Tokens++
		return t, true
	}
	for lx.pos < lx.n {
		t, np := lx.one()
		lx.pos = np
		if t.Cat != 0 {
			lx.st.Tokens++
			return t, true
		}
	}
	return Tok{}, false
}

func (lx *Lexer) Pos() int     { return lx.pos }
func (lx *Lexer) Stats() Stats { return lx.st }

// quoted scans a delimited string whose first content byte is at at+skip.
func (lx *Lexer) quoted(at, skip int, d byte) (Tok, int) {
	start := at + skip
	open := byte(0)
	if skip > 0 {
		open = d
	}
	i := start
	for {
		q := -1
		for j := i; j < lx.n; j++ {
			if lx.in[j] == d {
				q = j
				break
			}
		}
		if q < 0 {
			t := mk('s', start, lx.n-start, lx.in[start:])
			t.Open, t.Close = open, 0
			return t, lx.n
		}
		bs := 0
		for k := q - 1; k >= start && lx.in[k] == '\\'; k-- {
			bs++
		}
		if bs%2 == 1 {
			i = q + 1
			continue
		}
		if q+1 < lx.n && lx.in[q+1] == d {
			i = q + 2
			continue
		}
		t := mk('s', start, q-start, lx.in[start:])
		t.Open, t.Close = open, d
		return t, q + 1
	}
}

func (lx *Lexer) one() (Tok, int) {
	p := lx.pos
	b := lx.in[p]
	switch {
	case b <= 32 || b == 127 || b == 160:
		return Tok{}, p + 1
	case b == '"' || b == '\'':
		return lx.quoted(p, 1, b)
	case b == '#':
		lx.st.Hash++
		if lx.flags&MySQL != 0 {
			lx.st.Hash++
			return lx.eol()
		}
		return mk('o', p, 1, "#"), p + 1
	case b == '$':
		return lx.money()
	case b == '%' || b == '+' || b == '^' || b == '~':
		return mk('o', p, 1, lx.in[p:]), p + 1
	case b == '!' || b == '&' || b == '*' || b == ':' || b == '<' || b == '=' || b == '>' || b == '|':
		return lx.op2()
	case b == '(' || b == ')' || b == ',' || b == ';' || b == '{' || b == '}':
		return mk(b, p, 1, lx.in[p:]), p + 1
	case b == '-':
		return lx.dash()
	case b == '.' || (b >= '0' && b <= '9'):
		return lx.number()
	case b == '/':
		return lx.slash()
	case b == '?' || b == ']':
		return mk('?', p, 1, lx.in[p:]), p + 1
	case b == '@':
		return lx.variable()
	case b == 'B' || b == 'b':
		return lx.litNumber("01")
	case b == 'X' || b == 'x':
		return lx.litNumber("0123456789abcdefABCDEF")
	case b == 'E' || b == 'e':
		return lx.estring()
	case b == 'N' || b == 'n':
		if p+2 < lx.n && lx.in[p+1] == '\'' {
			return lx.estring()
		}
		return lx.qstring(1)
	case b == 'Q' || b == 'q':
		return lx.qstring(0)
	case b == 'U' || b == 'u':
		return lx.ustring()
	case b == '[':
		return lx.bracket()
	case b == '\\':
		if p+1 < lx.n && lx.in[p+1] == 'N' {
			return mk('1', p, 2, lx.in[p:]), p + 2
		}
		return mk('\\', p, 1, lx.in[p:]), p + 1
	case b == '`':
		return lx.tick(p)
	default:
		return lx.word()
	}
}

func (lx *Lexer) eol() (Tok, int) {
	p := lx.pos
	for j := p; j < lx.n; j++ {
		if lx.in[j] == '\n' {
			return mk('c', p, j-p, lx.in[p:]), j + 1
		}
	}
	return mk('c', p, lx.n-p, lx.in[p:]), lx.n
}

func (lx *Lexer) dash() (Tok, int) {
	p := lx.pos
	if p+1 < lx.n && lx.in[p+1] == '-' {
		if p+2 == lx.n || isWhite(lx.in[p+2]) {
			return lx.eol()
		}
		if lx.flags&ANSI != 0 {
			lx.st.DDX++
			return lx.eol()
		}
	}
	return mk('o', p, 1, "-"), p + 1
}

func (lx *Lexer) slash() (Tok, int) {
	p := lx.pos
	if p+1 >= lx.n || lx.in[p+1] != '*' {
		return mk('o', p, 1, lx.in[p:]), p + 1
	}
	body := lx.in[p+2:]
	e := index(body, "*/")
	cat := byte('c')
	var l int
	if e < 0 {
		l = lx.n - p
	} else {
		l = 2 + e + 2
		// nested opener anywhere in body[0 : e+1]
		if index(body[:e+1], "/*") >= 0 {
			cat = 'X'
		}
	}
	if cat != 'X' && p+2 < lx.n && lx.in[p+2] == '!' {
		cat = 'X'
	}
	return mk(cat, p, l, lx.in[p:]), p + l
}

func (lx *Lexer) op2() (Tok, int) {
	p := lx.pos
	if p+1 >= lx.n {
		return mk('o', p, 1, lx.in[p:]), p + 1
	}
	if p+2 < lx.n && lx.in[p:p+3] == "<=>" {
		return mk('o', p, 3, lx.in[p:]), p + 3
	}
	if c := lx.look(lx.in[p : p+2]); c != 0 {
		return mk(c, p, 2, lx.in[p:]), p + 2
	}
	if lx.in[p] == ':' {
		return mk(':', p, 1, lx.in[p:]), p + 1
	}
	return mk('o', p, 1, lx.in[p:]), p + 1
}

func (lx *Lexer) word() (Tok, int) {
	p := lx.pos
	wl := lx.cspan(p, wordDelims)
	t := mk('n', p, wl, lx.in[p:])
	for i := 0; i < t.Len; i++ {
		if t.Val[i] == '.' || t.Val[i] == '`' {
			if c := lx.look(t.Val[:i]); c != 0 && c != 'n' {
				return mk(c, p, i, lx.in[p:]), p + i
			}
		}
	}
	if wl < tokMax {
		if c := lx.look(t.Val[:wl]); c != 0 {
			t.Cat = c
		}
	}
	return t, p + wl
}

func (lx *Lexer) variable() (Tok, int) {
	p := lx.pos + 1
	cnt := 1
	if p < lx.n && lx.in[p] == '@' {
		p++
		cnt = 2
	}
	if p < lx.n {
		switch lx.in[p] {
		case '`':
			t, np := lx.tick(p)
			t.Cat, t.Cnt = 'v', cnt
			return t, np
		case '\'', '"':
			t, np := lx.quoted(p, 1, lx.in[p])
			t.Cat, t.Cnt = 'v', cnt
			return t, np
		}
	}
	set := varDelims
	if lx.D.VarNulDelim {
		set += "\x00"
	}
	l := lx.cspan(p, set)
	t := mk('v', p, l, lx.in[p:])
	t.Cnt = cnt
	return t, p + l
}

func (lx *Lexer) tick(p int) (Tok, int) {
	t, np := lx.quoted(p, 1, '`')
	if lx.look(t.Val[:t.Len]) == 'f' {
		t.Cat = 'f'
	} else {
		t.Cat = 'n'
	}
	return t, np
}

func digit(b byte) bool { return b >= '0' && b <= '9' }

func (lx *Lexer) number() (Tok, int) {
	p := lx.pos
	in, n := lx.in, lx.n
	if in[p] == '0' && p+1 < n {
		set := ""
		switch in[p+1] {
		case 'x', 'X':
			set = "0123456789ABCDEFabcdef"
		case 'b', 'B':
			set = "01"
		}
		if set != "" {
			l := lx.span(p+2, set)
			if l == 0 {
				return mk('n', p, 2, in[p:]), p + 2
			}
			return mk('1', p, 2+l, in[p:]), p + 2 + l
		}
	}
	i := p
	for i < n && digit(in[i]) {
		i++
	}
	if i < n && in[i] == '.' {
		i++
		for i < n && digit(in[i]) {
			i++
		}
		if i-p == 1 {
			return mk('.', p, 1, "."), i
		}
	}
	sawE, sawExp := false, false
	if i < n && (in[i] == 'e' || in[i] == 'E') {
		sawE = true
		i++
		if i < n && (in[i] == '+' || in[i] == '-') {
			i++
		}
		for i < n && digit(in[i]) {
			sawExp = true
			i++
		}
	}
	if i < n && inSet(in[i], "dDfF") {
		if i+1 == n || isWhite(in[i+1]) || in[i+1] == ';' || in[i+1] == 'u' || in[i+1] == 'U' {
			i++
		}
	}
	if sawE && !sawExp {
		return mk('n', p, i-p, in[p:]), i
	}
	return mk('1', p, i-p, in[p:]), i
}

func (lx *Lexer) money() (Tok, int) {
	p := lx.pos
	in, n := lx.in, lx.n
	if p+1 == n {
		return mk('n', p, 1, "$"), n
	}
	l := lx.span(p+1, "0123456789.,")
	if l == 0 {
		if in[p+1] == '$' {
			e := index(in[p+2:], "$$")
			if e < 0 {
				t := mk('s', p+2, n-(p+2), in[p+2:])
				t.Open = '$'
				return t, n
			}
			t := mk('s', p+2, e, in[p+2:])
			t.Open, t.Close = '$', '$'
			return t, p + 2 + e + 2
		}
		xl := lx.span(p+1, "abcdefghjiklmnopqrstuvwxyzABCDEFGHIJKLMNOPQRSTUVWXYZ")
		if xl == 0 || p+xl+1 == n || in[p+xl+1] != '$' {
			return mk('n', p, 1, "$"), p + 1
		}
		tag := in[p : p+xl+2]
		bs := p + xl + 2
		e := index(in[bs:], tag)
		if e < 0 {
			t := mk('s', bs, n-bs, in[bs:])
			t.Open = '$'
			return t, n
		}
		t := mk('s', bs, e, in[bs:])
		t.Open, t.Close = '$', '$'
		return t, bs + e + len(tag)
	}
	if l == 1 && in[p+1] == '.' {
		return lx.word()
	}
	return mk('1', p, l+1, in[p:]), p + l + 1
}

// b'0101' / x'ff' literals
func (lx *Lexer) litNumber(set string) (Tok, int) {
	p := lx.pos
	if p+2 >= lx.n || lx.in[p+1] != '\'' {
		return lx.word()
	}
	l := lx.span(p+2, set)
	if p+2+l >= lx.n || lx.in[p+2+l] != '\'' {
		return lx.word()
	}
	return mk('1', p, l+3, lx.in[p:]), p + 2 + l + 1
}

func (lx *Lexer) estring() (Tok, int) {
	p := lx.pos
	if p+2 >= lx.n || lx.in[p+1] != '\'' {
		return lx.word()
	}
	return lx.quoted(p, 2, '\'')
}

func (lx *Lexer) ustring() (Tok, int) {
	p := lx.pos
	if p+2 < lx.n && lx.in[p+1] == '&' && lx.in[p+2] == '\'' {
		t, np := lx.quoted(p+2, 1, '\'')
		t.Open = 'u'
		if t.Close == '\'' {
			t.Close = 'u'
		}
		return t, np
	}
	return lx.word()
}

func (lx *Lexer) qstring(off int) (Tok, int) {
	p := lx.pos + off
	in, n := lx.in, lx.n
	if p >= n || (in[p] != 'q' && in[p] != 'Q') || p+2 >= n || in[p+1] != '\'' {
		return lx.word()
	}
	d := in[p+2]
	if d < 33 {
		return lx.word()
	}
	switch d {
	case '(':
		d = ')'
	case '[':
		d = ']'
	case '{':
		d = '}'
	case '<':
		d = '>'
	}
	bs := p + 3
	for j := bs; j+1 < n; j++ {
		if in[j] == d && in[j+1] == '\'' {
			t := mk('s', bs, j-bs, in[bs:])
			t.Open, t.Close = 'q', 'q'
			return t, j + 2
		}
	}
	t := mk('s', bs, n-bs, in[bs:])
	t.Open = 'q'
	return t, n
}

func (lx *Lexer) bracket() (Tok, int) {
	p := lx.pos
	for j := p; j < lx.n; j++ {
		if lx.in[j] == ']' {
			return mk('n', p, j-p+1, lx.in[p:]), j + 1
		}
	}
	return mk('n', p, lx.n-p, lx.in[p:]), lx.n
}
