package refsqli

const maxTok = 5

type Folder struct {
	lx    *Lexer
	v     [8]Tok
	folds int
	// Hits counts, per folding rule of the specification, how often it fired
	// (coverage of the rule set is measured here, in the reference).
	Hits [NRules]uint16
}

// Rule identifiers, in the order the specification lists the rules.
const (
	RSS = iota
	RSemiSemi
	ROpUnary
	RParenUnary
	RMerge
	RSemiIf
	RFuncName
	RIn
	RLike
	RTypeX
	RCollate
	RBackslashArith
	RBackslashDrop
	RParenParen
	RCloseClose
	RBraceEvil
	RBraceWord
	RCloseBrace
	R1o1
	Roxo
	RAndAnd
	RVoX
	RNoN
	RCastType
	RCommaList
	RExprUnaryParen
	RKwUnaryX
	RCommaUnaryX
	RCommaUnaryF
	RNDotN
	REDotN
	RUserArgs
	RFive
	RFiveLookahead
	RLastComment
	RSixth
	RTickComment
	REvilCollapse
	NRules
)

var RuleNames = [NRules]string{"ss", "semi_semi", "op_unary", "paren_unary", "merge", "semi_if", "func_name", "in", "like", "type_x", "collate", "backslash_arith", "backslash_drop",
	"paren_paren", "close_close", "brace_evil", "brace_word", "close_brace", "1o1", "oxo", "and_and", "vox", "non", "cast_type", "comma_list", "expr_unary_paren", "kw_unary_x",
	"comma_unary_x", "comma_unary_f", "n_dot_n", "e_dot_n", "user_args", "five_token_special", "five_token_special_with_sixth_token", "last_comment_appended", "sixth_token_dropped", "tick_comment", "evil_collapse"}

func (f *Folder) hit(r int) {
	if f.Hits[r] < 60000 {
		f.Hits[r]++
	}
}

func isUnary(t *Tok) bool {
	if t.Cat != 'o' {
		return false
	}
	switch t.Len {
	case 1:
		return inSet(t.Val[0], "+-!~")
	case 2:
		return t.Val == "!!"
	case 3:
		return upper(t.Val) == "NOT"
	}
	return false
}

func isArith(t *Tok) bool {
	return t.Cat == 'o' && t.Len == 1 && inSet(t.Val[0], "*/+-%")
}

func is(t *Tok, cats string) bool { return inSet(t.Cat, cats) }

func (lx *Lexer) cstr(s string) string {
	if lx.D.CStrVals {
		for i := 0; i < len(s); i++ {
			if s[i] == 0 {
				return s[:i]
			}
		}
	}
	return s
}

func (f *Folder) nameIs(t *Tok, names ...string) bool {
	u := upper(t.Val[:t.Len])
	for _, n := range names {
		if u == n {
			return true
		}
	}
	return false
}

func (f *Folder) merge(a, b *Tok) bool {
	if !is(a, "knoUfETt") || !is(b, "knoUfETt&") {
		return false
	}
	if a.Len+b.Len+1 > tokMax {
		return false
	}
	j := a.Val[:a.Len] + " " + b.Val[:b.Len]
	c := f.lx.look(j)
	if c == 0 {
		return false
	}
	*a = Tok{Cat: c, Pos: a.Pos, Len: len(j), Val: j, Cnt: a.Cnt, Open: a.Open, Close: a.Close}
	if a.Len >= tokMax {
		a.Len = tokMax - 1
		a.Val = a.Val[:a.Len]
	}
	return true
}

// Fold returns the number of tokens in the folded prefix (<=5).
func (f *Folder) Fold() int {
	var last Tok
	pos, left := 0, 0
	more := true
	var cur Tok
	for more {
		cur, more = f.lx.Next()
		f.v[0] = cur
		if !more {
			break
		}
		if !(is(&cur, "c(t") || isUnary(&cur)) {
			break
		}
	}
	if !more {
		return 0
	}
	pos = 1

	fetch := func(want int) {
		for more && pos <= maxTok && pos-left < want {
			var t Tok
			t, more = f.lx.Next()
			if !more {
				f.v[pos] = Tok{}
				break
			}
			f.v[pos] = t
			if t.Cat == 'c' {
				last = t
			} else {
				last.Cat = 0
				pos++
			}
		}
	}

	for {
		if pos >= maxTok {
			c := func(i int) byte { return f.v[i].Cat }
			m := (c(0) == '1' && (c(1) == 'o' || c(1) == ',') && c(2) == '(' && c(3) == '1' && c(4) == ')') ||
				(c(0) == 'n' && c(1) == 'o' && c(2) == '(' && (c(3) == 'n' || c(3) == '1') && c(4) == ')') ||
				(c(0) == '1' && c(1) == ')' && c(2) == ',' && c(3) == '(' && c(4) == '1') ||
				(c(0) == 'n' && c(1) == ')' && c(2) == 'o' && c(3) == '(' && c(4) == 'n')
			if m {
				f.hit(RFive)
				if pos > maxTok {
					f.hit(RFiveLookahead)
					f.v[1] = f.v[maxTok]
					pos = 2
				} else {
					pos = 1
				}
				left = 0
			}
		}
		if !more || left >= maxTok {
			left = pos
			break
		}
		fetch(2)
		if pos-left < 2 {
			left = pos
			continue
		}
		a, b := &f.v[left], &f.v[left+1]
		switch {
		case a.Cat == 's' && b.Cat == 's':
			f.hit(RSS)
			pos--
			f.folds++
			continue
		case a.Cat == ';' && b.Cat == ';':
			f.hit(RSemiSemi)
			pos--
			f.folds++
			continue
		case is(a, "o&") && (isUnary(b) || b.Cat == 't'):
			f.hit(ROpUnary)
			pos--
			f.folds++
			left = 0
			continue
		case a.Cat == '(' && isUnary(b):
			f.hit(RParenUnary)
			pos--
			f.folds++
			if left > 0 {
				left--
			}
			continue
		case f.merge(a, b):
			f.hit(RMerge)
			pos--
			f.folds++
			if left > 0 {
				left--
			}
			continue
		case a.Cat == ';' && b.Cat == 'f' && b.Len >= 2 && up(b.Val[0]) == 'I' && up(b.Val[1]) == 'F':
			f.hit(RSemiIf)
			b.Cat = 'T'
			continue
		case is(a, "nv") && b.Cat == '(' && f.nameIs(a, "USER_ID", "USER_NAME", "DATABASE", "PASSWORD", "USER",
			"CURRENT_USER", "CURRENT_DATE", "CURRENT_TIME", "CURRENT_TIMESTAMP", "LOCALTIME", "LOCALTIMESTAMP"):
			f.hit(RFuncName)
			a.Cat = 'f'
			continue
		case a.Cat == 'k' && f.nameIs(a, "IN", "NOT IN"):
			f.hit(RIn)
			if b.Cat == '(' {
				a.Cat = 'o'
			} else {
				a.Cat = 'n'
			}
			continue
		case a.Cat == 'o' && f.nameIs(a, "LIKE", "NOT LIKE"):
			if b.Cat == '(' {
				f.hit(RLike)
				a.Cat = 'f'
			}
		case a.Cat == 't' && is(b, "n1t(fvs"):
			f.hit(RTypeX)
			*a = *b
			pos--
			f.folds++
			left = 0
			continue
		case a.Cat == 'A' && b.Cat == 'n':
			if inSet('_', f.lx.cstr(b.Val)) {
				f.hit(RCollate)
				b.Cat = 't'
				left = 0
			}
		case a.Cat == '\\':
			if isArith(b) {
				f.hit(RBackslashArith)
				a.Cat = '1'
			} else {
				f.hit(RBackslashDrop)
				*a = *b
				pos--
				f.folds++
			}
			left = 0
			continue
		case a.Cat == '(' && b.Cat == '(':
			f.hit(RParenParen)
			pos--
			left = 0
			f.folds++
			continue
		case a.Cat == ')' && b.Cat == ')':
			f.hit(RCloseClose)
			pos--
			left = 0
			f.folds++
			continue
		case a.Cat == '{' && b.Cat == 'n':
			if b.Len == 0 {
				f.hit(RBraceEvil)
				b.Cat = 'X'
				return left + 2
			}
			f.hit(RBraceWord)
			left = 0
			pos -= 2
			f.folds += 2
			continue
		case b.Cat == '}':
			f.hit(RCloseBrace)
			pos--
			left = 0
			f.folds++
			continue
		}

		fetch(3)
		if pos-left < 3 {
			left = pos
			continue
		}
		a, b = &f.v[left], &f.v[left+1]
		c := &f.v[left+2]
		switch {
		case a.Cat == '1' && b.Cat == 'o' && c.Cat == '1':
			f.hit(R1o1)
			pos -= 2
			left = 0
			continue
		case a.Cat == 'o' && b.Cat != '(' && c.Cat == 'o':
			f.hit(Roxo)
			pos -= 2
			left = 0
			continue
		case a.Cat == '&' && c.Cat == '&':
			f.hit(RAndAnd)
			pos -= 2
			left = 0
			continue
		case a.Cat == 'v' && b.Cat == 'o' && is(c, "v1n"):
			f.hit(RVoX)
			pos -= 2
			left = 0
			continue
		case is(a, "n1") && b.Cat == 'o' && is(c, "1n"):
			f.hit(RNoN)
			pos -= 2
			left = 0
			continue
		case is(a, "n1vs") && b.Cat == 'o' && f.lx.cstr(b.Val[:b.Len]) == "::" && c.Cat == 't':
			f.hit(RCastType)
			pos -= 2
			left = 0
			f.folds += 2
			continue
		case is(a, "n1sv") && b.Cat == ',' && is(c, "1nsv"):
			f.hit(RCommaList)
			pos -= 2
			left = 0
			continue
		case is(a, "EB,") && isUnary(b) && c.Cat == '(':
			f.hit(RExprUnaryParen)
			*b = *c
			pos--
			left = 0
			continue
		case is(a, "kEB") && isUnary(b) && is(c, "1nvsf"):
			f.hit(RKwUnaryX)
			*b = *c
			pos--
			left = 0
			continue
		case a.Cat == ',' && isUnary(b) && is(c, "1nvs"):
			f.hit(RCommaUnaryX)
			*b = *c
			left = 0
			pos -= 3
			continue
		case a.Cat == ',' && isUnary(b) && c.Cat == 'f':
			f.hit(RCommaUnaryF)
			*b = *c
			pos--
			left = 0
			continue
		case a.Cat == 'n' && b.Cat == '.' && c.Cat == 'n':
			f.hit(RNDotN)
			pos -= 2
			left = 0
			continue
		case a.Cat == 'E' && b.Cat == '.' && c.Cat == 'n':
			f.hit(REDotN)
			*b = *c
			pos--
			left = 0
			continue
		case a.Cat == 'f' && b.Cat == '(' && c.Cat != ')':
			if f.nameIs(a, "USER") {
				f.hit(RUserArgs)
				a.Cat = 'n'
			}
		}
		left++
	}

	if left < maxTok && last.Cat == 'c' {
		f.hit(RLastComment)
		f.v[left] = last
		left++
	}
	if left > maxTok {
		f.hit(RSixth)
		left = maxTok
	}
	return left
}

type Result struct {
	Hits      [NRules]uint16
	Toks      []Tok
	FP        string
	Blacklist bool
	Verdict   bool
	Stats     Stats
}

// Fingerprint evaluates one parsing mode on fresh state.
func Fingerprint(in string, flags int, kw map[string]byte, d Deltas) Result {
	lx := NewLexer(in, flags, kw, d)
	f := &Folder{lx: lx}
	n := f.Fold()
	if n > 2 {
		t := &f.v[n-1]
		if t.Cat == 'n' && t.Open == '`' && t.Len == 0 && t.Close == 0 {
			f.hit(RTickComment)
			t.Cat = 'c'
		}
	}
	fp := make([]byte, 0, 5)
	for i := 0; i < n; i++ {
		fp = append(fp, f.v[i].Cat)
	}
	for _, c := range fp {
		if c == 'X' {
			f.hit(REvilCollapse)
			fp = []byte{'X'}
			f.v[0].Cat = 'X'
			f.v[0].Val = "X"
			break
		}
	}
	st := lx.Stats()
	st.Folds = f.folds
	r := Result{FP: string(fp), Stats: st, Hits: f.Hits}
	for i := 0; i < len(fp); i++ {
		r.Toks = append(r.Toks, f.v[i])
	}
	r.Blacklist = len(fp) > 0 && kw["0"+upper(string(fp))] == 'F'
	r.Verdict = r.Blacklist && notWhitelisted(in, string(fp), f.v[:], st, d)
	return r
}

func contains(h, n string) bool { return index(h, n) >= 0 }

func notWhitelisted(in, fp string, v []Tok, st Stats, d Deltas) bool {
	n := len(fp)
	if n > 1 && fp[n-1] == 'c' && contains(in, "sp_password") {
		return true
	}
	first := func(t *Tok) byte {
		if len(t.Val) == 0 {
			return 0
		}
		return t.Val[0]
	}
	at := func(i int) byte {
		if i < len(in) {
			return in[i]
		}
		return 0
	}
	switch n {
	case 2:
		if fp[1] == 'U' {
			return st.Tokens != 2
		}
		if first(&v[1]) == '#' {
			return false
		}
		if v[0].Cat == 'n' && v[1].Cat == 'c' && first(&v[1]) != '/' {
			return false
		}
		if v[0].Cat == '1' && v[1].Cat == 'c' {
			if d.WhitelistSlashC {
				if first(&v[1]) == '/' {
					return true
				}
			} else if first(&v[1]) != '/' {
				return true
			}
			if st.Tokens > 2 {
				return true
			}
			l := v[0].Len
			ch := at(l)
			if ch <= 32 {
				return true
			}
			if ch == '/' && at(l+1) == '*' {
				return true
			}
			if ch == '-' && at(l+1) == '-' {
				return true
			}
			return false
		}
		if v[1].Len > 2 && first(&v[1]) == '-' {
			return false
		}
	case 3:
		switch fp {
		case "sos", "s&s":
			return v[0].Open == 0 && v[2].Close == 0 && v[0].Close == v[2].Open
		case "s&n", "n&1", "1&1", "1&v", "1&s":
			if st.Tokens == 3 {
				return false
			}
		}
		if v[1].Cat == 'k' && (v[1].Len < 5 || upper(v[1].Val[:4]) != "INTO") {
			return false
		}
	}
	return true
}

var passes = []int{QNone | ANSI, QNone | MySQL, QSingle | ANSI, QSingle | MySQL, QDouble | MySQL}

// IsSQLi is the cascade over parsing contexts.
func IsSQLi(in string, kw map[string]byte, d Deltas) (bool, string) {
	if len(in) == 0 {
		return false, ""
	}
	has := func(b byte) bool {
		for i := 0; i < len(in); i++ {
			if in[i] == b {
				return true
			}
		}
		return false
	}
	r := Fingerprint(in, QNone|ANSI, kw, d)
	if r.Verdict {
		return true, r.FP
	}
	if r.Stats.DDX != 0 || r.Stats.Hash != 0 {
		if r = Fingerprint(in, QNone|MySQL, kw, d); r.Verdict {
			return true, r.FP
		}
	}
	if has('\'') {
		r = Fingerprint(in, QSingle|ANSI, kw, d)
		if r.Verdict {
			return true, r.FP
		}
		if r.Stats.DDX != 0 || r.Stats.Hash != 0 {
			if r = Fingerprint(in, QSingle|MySQL, kw, d); r.Verdict {
				return true, r.FP
			}
		}
	}
	if has('"') {
		if r = Fingerprint(in, QDouble|MySQL, kw, d); r.Verdict {
			return true, r.FP
		}
	}
	return false, ""
}
