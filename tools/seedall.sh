#!/bin/bash
# tools/seedall.sh [lanes=1] [name-filter] : re-confirms every seeded change under /verif/seeded and re-runs the
# relevant quick checks against it with the harness as it is now; rewrites each meta.json and the
# DESIGN table. C09 (timing) is only run for the seeds that target C09, C05 (child processes under the race detector) for the seeds about shared state.
cd /verif
LANES="${1:-1}"
cp tools/seedcheck.sh .bin/seedcheck.run.sh
SQLI="C01 C03 C06 C08 C10 C12 C14 C16 C18"; XSS="C02 C04 C07 C11 C13 C15 C17 C19"
one() {
  n="$1"; d="seeded/$n"
  ids="C20"
  case "$n" in C05*|C14-r2-2|C15-2|C15-r2-2|C20-2|C20-r2-1|C01-2|C02-r3-1|C03-r3-2|C08-r3-2|C19-r3-*|C04-r4-1|C08-r4-2|C20-r4-2|C14-r4-2|C04-r5-2|C20-r5-*|C20-r6-*|C20-r7-*) ids="$ids C05";; esac
  grep -q '^+++ b/sqli' "$d/patch.diff" && ids="$SQLI $ids"
  grep -q '^+++ b/\(xss\|html5\)' "$d/patch.diff" && ids="$XSS $ids"
  case "$n" in C09*) ids="$ids C09";; esac
  if [ -n "${SEED_MIN:-}" ]; then
    # short form: the check of the property the seed was written against, the differential check of its side, and C05 / C09 as above
    t="${n%%-*}"; m="$t"
    grep -q '^+++ b/sqli' "$d/patch.diff" && m="$m C06"
    grep -q '^+++ b/\(xss\|html5\)' "$d/patch.diff" && m="$m C07"
    case " $ids " in *" C05 "*) m="$m C05";; esac
    ids=$(echo $m | tr ' ' '\n' | awk '!s[$0]++' | tr '\n' ' ')
  fi
  bash .bin/seedcheck.run.sh "$d" "$n" $ids 2>&1 | grep -a "RESULT\|INVALID" | cut -c1-200
}
export -f one; export SQLI XSS SEED_MIN
ls seeded | grep -- "${2:-.}" | xargs -P "$LANES" -I{} bash -c 'one {}'
python3 tools/mkseedtable.py
