#!/bin/bash
# tools/seedall.sh : re-confirms every seeded change under /verif/seeded and re-runs the relevant
# quick checks against it with the harness as it is now; rewrites each meta.json and the DESIGN table.
cd /verif
cp tools/seedcheck.sh .bin/seedcheck.run.sh
for d in seeded/*/; do
  n=$(basename "$d")
  echo "=== $n"
  bash .bin/seedcheck.run.sh "$d" "$n" 2>&1 | grep -a "RESULT\|INVALID\|INCONCLUSIVE" | cut -c1-220
done
python3 tools/mkseedtable.py
