#!/usr/bin/env python3
"""Rewrites the seeded-changes table of DESIGN.md from seeded/*/meta.json."""
import json, os, glob, re
V = os.path.dirname(os.path.dirname(os.path.abspath(__file__)))
rows = []
for d in sorted(glob.glob(os.path.join(V, 'seeded', '*'))):
    try:
        m = json.load(open(os.path.join(d, 'meta.json')))
    except Exception:
        continue
    name = os.path.basename(d)
    tgt = m.get('property', name.split('-')[0])
    caught = m.get('quick_checks_catching_it', [])
    summ = (m.get('summary') or '').replace('\n', ' ').replace('|', '/')
    need = (m.get('needs_to_manifest') or '').replace('\n', ' ').replace('|', '/')
    if len(summ) > 150: summ = summ[:147] + '...'
    if len(need) > 150: need = need[:147] + '...'
    mark = 'yes' if tgt in caught else ('by others' if caught else ('no (see notes)'))
    if m.get('invalidated_by'):
        mark += ' [before ' + m['invalidated_by'] + ': the demonstration relied on the behaviour that repair removed]'
    rows.append('| %s | %s | %s | %s | %s |' % (name, summ, need, ' '.join(caught) or '-', mark))
tab = ['| seed | change | needs to manifest | quick checks that exit 1 | target check catches it |', '|---|---|---|---|---|'] + rows
p = os.path.join(V, 'DESIGN.md')
s = open(p).read()
new = '<!-- SEEDED-TABLE-BEGIN -->\n' + '\n'.join(tab) + '\n<!-- SEEDED-TABLE-END -->'
s = re.sub(r'<!-- SEEDED-TABLE-BEGIN -->.*<!-- SEEDED-TABLE-END -->', lambda m: new, s, flags=re.S)
open(p, 'w').write(s)
tot = len(rows)
anyc = sum(1 for r in rows if not r.split('|')[4].strip() == '-')
tg = sum(1 for r in rows if r.split('|')[5].strip().startswith('yes'))
print(tot, 'seeds tabulated;', anyc, 'caught by some check;', tg, 'by the target check')
