#!/bin/bash
# tools/seedcheck.sh <src-dir with patch.diff demo_test.go meta.json> <name> [IDs...]
# Confirms a seeded change in a scratch copy of /repo (never /repo itself):
#   patched: builds (with and without -tags verif), repository tests pass, demo FAILS
#   unpatched: demo PASSES
# then runs the quick checks (default: all 20) against the patched scratch copy and
# stores everything under /verif/seeded/<name>/ (patch.diff, demo_test.go, meta.json, result.json).
set -u
SRC="$(realpath "$1")"; NAME="$2"; shift 2
IDS="$*"
if [ -z "$IDS" ]; then
  # default: the checks of the side(s) of the library the patch touches (all 20 with SEED_ALL=1)
  SQLI="C01 C03 C06 C08 C10 C12 C14 C16 C18"; XSS="C02 C04 C07 C11 C13 C15 C17 C19"; BOTH="C05 C09 C20"
  IDS="$BOTH"
  grep -q '^+++ b/sqli' "$SRC/patch.diff" && IDS="$SQLI $IDS"
  grep -q '^+++ b/\(xss\|html5\)' "$SRC/patch.diff" && IDS="$XSS $IDS"
  [ -n "${SEED_ALL:-}" ] && IDS="$(seq -f 'C%02g' 1 20)"
fi
export GOFLAGS=-mod=mod GOPROXY=off GOSUMDB=off GOTOOLCHAIN=local
S=$(mktemp -d /tmp/vseed.XXXXXX); trap 'rm -rf "$S"' EXIT
mkdir -p "$S/repo" "$S/clean" "$S/out"
(cd /repo && git archive HEAD) | tar -x -C "$S/repo"
(cd /repo && git archive HEAD) | tar -x -C "$S/clean"
cp /verif/known_findings.json "$S/out/"
(cd "$S/repo" && git init -q . 2>/dev/null; git apply --whitespace=nowarn "$SRC/patch.diff" 2>"$S/apply.err" || patch -p1 -s < "$SRC/patch.diff") || { echo "SEED-INVALID patch does not apply"; cat "$S/apply.err"; exit 3; }
rm -rf "$S/repo/.git"
ok=1
(cd "$S/repo" && go build ./... && go build -tags verif ./...) > "$S/build.log" 2>&1 || { echo "SEED-INVALID does not build"; tail -5 "$S/build.log"; exit 3; }
(cd "$S/repo" && go test -vet=off -count=1 ./...) > "$S/suite.log" 2>&1 || { echo "SEED-INVALID existing suite fails with the patch"; tail -8 "$S/suite.log"; exit 3; }
RACE=""; grep -q -i 'race' "$SRC/demo_test.go" "$SRC/meta.json" 2>/dev/null && RACE="-race"
cp "$SRC/demo_test.go" "$S/repo/zz_seed_demo_test.go"; cp "$SRC/demo_test.go" "$S/clean/zz_seed_demo_test.go"
(cd "$S/repo" && go test $RACE -vet=off -count=1 -run 'TestSeedDemo' . ) > "$S/demo_patched.log" 2>&1 && { echo "SEED-INVALID demo passes WITH the patch"; ok=0; }
(cd "$S/clean" && go test $RACE -vet=off -count=1 -run 'TestSeedDemo' . ) > "$S/demo_clean.log" 2>&1 || { echo "SEED-INVALID demo fails WITHOUT the patch"; tail -5 "$S/demo_clean.log"; ok=0; }
[ $ok = 1 ] || exit 3
rm -f "$S/repo/zz_seed_demo_test.go"
echo "seed confirmed: builds, suite passes, demo fails with patch and passes without (race=$RACE)"
D="/verif/seeded/$NAME"; mkdir -p "$D"
[ "$SRC" = "$(realpath "$D")" ] || cp "$SRC/patch.diff" "$SRC/demo_test.go" "$D/"
caught=""; missed=""; incon=""
for ID in $IDS; do
  VERIF_REPO="$S/repo" VERIF_OUT="$S/out" "${VERIF_CHECK:-/verif/check}" "$ID" --tier quick > "$S/$ID.log" 2>&1
  rc=$?
  case $rc in
    1) caught="$caught $ID"; echo "$ID CAUGHT $(grep -a -m1 '^FAILED-CASE' "$S/$ID.log" | cut -c1-260)";;
    0) missed="$missed $ID";;
    *) incon="$incon $ID"; echo "$ID INCONCLUSIVE $(grep -a -m1 'INCONCLUSIVE\|RAPID-PROBLEM' "$S/$ID.log" | cut -c1-200)";;
  esac
done
python3 - "$SRC/meta.json" "$D/meta.json" "$NAME" "$caught" "$missed" "$incon" <<'PY'
import json,sys
src,dst,name,caught,missed,incon=sys.argv[1:7]
try: m=json.load(open(src))
except Exception: m={"note":"meta.json of the sub-agent was not valid JSON"}
m["seed_name"]=name
m["confirmed"]={"patched_builds_with_and_without_tag":True,"existing_suite_passes_with_patch":True,"demo_fails_with_patch":True,"demo_passes_without_patch":True,"how":"tools/seedcheck.sh in a scratch copy of /repo HEAD"}
m["quick_checks_catching_it"]=caught.split()
m["quick_checks_silent"]=missed.split()
m["quick_checks_inconclusive"]=incon.split()
json.dump(m,open(dst,"w"),indent=1)
PY
echo "RESULT $NAME caught_by:[$caught ] inconclusive:[$incon ]"
