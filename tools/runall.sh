#!/bin/bash
# tools/runall.sh [tier] : runs every check once, prints id, exit code, wall time; validates evidence
TIER="${1:-quick}"
cd /verif
for i in $(seq -w 1 20); do
  ID="C$i"
  t0=$(date +%s.%N)
  rm -f evidence/$ID.json
  ./check $ID --tier $TIER > .bin/all.$ID.log 2>&1
  rc=$?
  t1=$(date +%s.%N)
  v=$(python3-vt -c "
import json,jsonschema,sys
try:
    jsonschema.validate(json.load(open('/verif/evidence/$ID.json')), json.load(open('/root/.vp/EVIDENCE.schema.json'))); print('evidence-valid')
except Exception as e: print('EVIDENCE-INVALID', str(e)[:100])" 2>&1)
  printf "%s exit=%s %.1fs %s %s\n" $ID $rc $(echo "$t1 - $t0" | bc) "$v" "$(grep -a -m1 '^OK\|^VIOLATION\|^INCONCLUSIVE' .bin/all.$ID.log | cut -c1-150)"
done
