#!/usr/bin/env python3
"""Regenerates /verif/MANIFEST.json from the table below (run after editing)."""
import json, os, subprocess
V = os.path.dirname(os.path.dirname(os.path.abspath(__file__)))

CHECKS = {
 "C06": dict(technique="differential testing against an independent reference model: bounded-exhaustive byte/token enumeration + rapid fragment grammar + corpus mutation (+ go fuzz in thorough)",
             text="Every generated input is run through the port and through refsqli in all six parsing modes and compared token by token (class, offset, clipped value, quote marks, scan offset), on statistics, folded tokens, fingerprint, blacklist bit, verdict and IsSQLi result. Exhaustive for all strings <= 3 (quick) / 4 (thorough) bytes over a 53-symbol byte-class alphabet and for all sequences of <= 4 tokens over 35 token atoms; sampled beyond. Exploration, not proof: agreement is shown on what was generated.",
             note="Trusted: the reference model (validated against the repository's 417 fixtures), the port-specific rules P1/P5/P6 it adopts, the exclusion of the four Unicode code points that strings.ToUpper folds to ASCII.", ref="5/C06"),
 "C07": dict(technique="differential testing against an independent reference model: bounded-exhaustive enumeration over the HTML alphabet and markup atoms + rapid fragment grammar + leaf-predicate differentials",
             text="Every generated input is tokenised from all five start contexts by the port and by refxss (explicit state enum, naive terminator search) and compared on (type, offset, length) streams, per-context verdict and IsXSS; tag/attribute/URL predicates and the entity decoder are compared directly on generated names and values (decoder exhaustively to length 6 over its 13-symbol alphabet).",
             note="Trusted: the reference model and rules P2/P3/P4; exclusion of the four Unicode fold code points.", ref="5/C07"),
}

def main():
    props = [json.loads(l) for l in open(os.path.join(V, "properties.jsonl"))]
    checks, na = [], []
    for p in props:
        i = p["id"]
        if i not in CHECKS:
            na.append({"property_id": i, "reason": "check not yet built in this revision (work in progress; see DESIGN.md section 5 for the planned design)"})
            continue
        c = CHECKS[i]
        checks.append({
            "property_id": i,
            "quick_cmd": f"./check {i} --tier quick",
            "thorough_cmd": f"./check {i} --tier thorough",
            "evidence_file": f"/verif/evidence/{i}.json",
            "replay_cmd_template": f"./check {i} --replay {{path}}",
            "engine": "harness",
            "level_claimed": {"category": "exploration", "text": c["text"], "design_ref": c["ref"]},
            "level_note": c["note"],
            "technique": c["technique"],
        })
    hooks_commits = subprocess.run(["git", "-C", "/repo", "log", "--format=%H", "--", "verif_hooks.go"], capture_output=True, text=True).stdout.split()
    m = {
        "version": 1,
        "setup_cmd": "./setup.sh",
        "hooks": {
            "guard": "verif",
            "enable": "go test -tags verif (harness module /verif/harness with replace github.com/corazawaf/libinjection-go => /repo); the only guarded file is /repo/verif_hooks.go (//go:build verif)",
            "baseline_off_cmd": "cd /repo && go test -vet=off -count=1 -json ./...",
            "source_commits": hooks_commits,
            "add_only": True,
        },
        "engines": [{"name": "harness", "path": "/verif/harness", "serves_properties": [c["property_id"] for c in checks],
                     "kind_free_text": "Go test binary (package props) built per call against /repo with -tags verif: bounded-exhaustive enumerators, pgregory.net/rapid v1.3.0 generators with shrinking, two reference models (refsqli, refxss), native go fuzz targets in the thorough tier; driver ./check"}],
        "checks": checks,
        "not_applicable": na,
        "notes": "Technique family: property-based testing and fuzzing. Exit codes of ./check: 0 held, 1 VIOLATION line printed, 2 inconclusive (build failure / vacuous generator / infrastructure). VERIF_SEED selects the rapid PRNG seeds; enumerations are seed-independent. known_findings.json lists repaired defects (status fixed) and would list open ones.",
    }
    json.dump(m, open(os.path.join(V, "MANIFEST.json"), "w"), indent=1)
    print("wrote MANIFEST.json:", len(checks), "checks,", len(na), "not_applicable")

main()
