#!/bin/bash
# tools/mutant.sh <patch-file|-R:fixcommit> <ID> [<ID>...]
# Applies a patch to a scratch copy of /repo (never to /repo itself), checks that it
# builds and passes the repository's own tests, then runs the named quick checks
# against the scratch copy. Evidence and replays go to a scratch directory.
# Prints one line per check: "<ID> exit=<code>". Removes everything afterwards.
set -u
PATCH="$1"; shift; case "$PATCH" in -R:*) ;; *) PATCH="$(realpath "$PATCH")";; esac
S=$(mktemp -d /tmp/vmut.XXXXXX)
trap 'rm -rf "$S"' EXIT
mkdir -p "$S/repo" "$S/out"
(cd /repo && git archive HEAD) | tar -x -C "$S/repo"
cp /verif/known_findings.json "$S/out/" 2>/dev/null
export GOFLAGS=-mod=mod GOPROXY=off GOSUMDB=off GOTOOLCHAIN=local
case "$PATCH" in
  -R:*) (cd /repo && git show "${PATCH#-R:}" -- . ':!verif_hooks.go') | (cd "$S/repo" && patch -R -p1 -s) || { echo "revert failed"; exit 3; } ;;
  *) (cd "$S/repo" && patch -p1 -s < "$(realpath "$PATCH")") || { echo "patch failed"; exit 3; } ;;
esac
if ! (cd "$S/repo" && go build ./... && go test -vet=off -count=1 ./... > "$S/test.log" 2>&1); then
  echo "MUTANT-INVALID: does not build or fails the repository tests"; tail -5 "$S/test.log"; exit 4
fi
echo "mutant builds and passes the repository tests"
for ID in "$@"; do
  VERIF_REPO="$S/repo" VERIF_OUT="$S/out" VERIF_TIER="${VERIF_TIER:-quick}" "${VERIF_CHECK:-/verif/check}" "$ID" > "$S/$ID.log" 2>&1
  rc=$?
  echo "$ID exit=$rc $(grep -a -m1 '^FAILED-CASE\|^INCONCLUSIVE' "$S/$ID.log" | cut -c1-300)"
done
