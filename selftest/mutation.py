#!/usr/bin/env python3
"""Single-site mutation campaign against the quick tier.

usage: selftest/mutation.py [parallel=4] [workers_per_mutant=4] [limit] [only_status_file]

Generates operator mutants of the library's source (from /repo's working tree, read-only),
keeps those that compile and pass the repository's own tests, and runs the relevant quick
checks against a scratch copy (never /repo). One JSON line per mutant is appended to
selftest/mutation_results.jsonl next to this script. Scratch data lives under /tmp and is
removed as it goes.
"""
import os, re, sys, json, shutil, subprocess, threading, queue, tempfile, time

HERE = os.path.dirname(os.path.abspath(__file__))
VERIF = os.path.dirname(HERE)
REPO = '/repo'
ENV = dict(os.environ, GOFLAGS='-mod=mod', GOPROXY='off', GOSUMDB='off', GOTOOLCHAIN='local')
FILES = ['sqli.go', 'sqli_parse.go', 'sqli_token.go', 'sqli_helpers.go', 'html5.go', 'xss.go', 'xss_helpers.go', 'sqli_data.go']
PAR = int(sys.argv[1]) if len(sys.argv) > 1 else 4
WPM = int(sys.argv[2]) if len(sys.argv) > 2 else 4
LIMIT = int(sys.argv[3]) if len(sys.argv) > 3 else 10**9

SQL_ORDER = ['C16', 'C18', 'C01', 'C08', 'C12', 'C10', 'C14', 'C03', 'C06', 'C20']
XSS_ORDER = ['C17', 'C02', 'C15', 'C13', 'C11', 'C19', 'C04', 'C07', 'C20']

OPS = [
 (r'==', '!='), (r'!=', '=='), (r'<=', '<'), (r'>=', '>'),
 (r'(?<![<\-=!>])<(?![=<\-])', '<='), (r'(?<![>\-=!<])>(?![=>])', '>='),
 (r'&&', '||'), (r'\|\|', '&&'),
 (r'\+ 1\b', '+ 2'), (r'\+ 2\b', '+ 1'), (r'\+ 3\b', '+ 2'), (r'- 1\b', '- 0'), (r'-= 2\b', '-= 1'), (r'-= 1\b', '-= 2'), (r'\+\+', '+= 2'),
 (r'\bpos--', 'pos -= 0'), (r'\bleft = 0\b', 'left = left'), (r'\bcontinue\b', 'break'),
 (r'\btrue\b', 'false'), (r'\bfalse\b', 'true'),
 (r'\b32\b', '33'), (r'\b127\b', '128'), (r'\b0x20\b', '0x00'),
 (r"sqliTokenTypeBareWord", "sqliTokenTypeKeyword"), (r"sqliTokenTypeNumber", "sqliTokenTypeBareWord"), (r"sqliTokenTypeString", "sqliTokenTypeVariable"),
 (r"sqliTokenTypeOperator", "sqliTokenTypeLogicOperator"), (r"sqliTokenTypeComment", "sqliTokenTypeOperator"),
 (r"sqliFlagSQLAnsi", "sqliFlagSQLMysql"), (r"sqliFlagSQLMysql", "sqliFlagSQLAnsi"), (r"sqliFlagQuoteSingle", "sqliFlagQuoteDouble"), (r"sqliFlagQuoteDouble", "sqliFlagQuoteSingle"),
 (r"byteSingle", "byteDouble"), (r"byteDouble", "byteTick"), (r"byteGT", "byteLT"), (r"byteDash", "byteBang"), (r"byteSlash", "byteEquals"),
 (r"strings\.ToUpper\(", "("), (r'strings\.ReplaceAll\(([^,]+), "\\x00", ""\)', r'\1'),
 (r"attributeTypeBlack", "attributeTypeNone"), (r"attributeTypeAttrURL", "attributeTypeNone"), (r"attributeTypeStyle", "attributeTypeNone"),
 (r"html5TypeAttrValue", "html5TypeAttrName"), (r"html5TypeTagComment", "html5TypeDataText"), (r"html5TypeTagNameOpen", "html5TypeTagData"),
 (r"h\.stateData\b(?!\()", "h.stateEOF"), (r"h\.stateBeforeAttributeName\b(?!\()", "h.stateAfterAttributeName"),
 (r"s\.statsTokens\+\+", "s.statsTokens += 0"), (r"s\.statsFolds\+\+", "s.statsFolds += 0"), (r"s\.statsCommentDDX\+\+", "s.statsCommentDDX += 0"), (r"s\.statsCommentHash\+\+", "s.statsCommentHash += 0"),
]

def gen():
    muts = []
    for f in FILES:
        lines = open(os.path.join(REPO, f)).read().split('\n')
        maxl = len(lines) if f != 'sqli_data.go' else 56
        for i, l in enumerate(lines[:maxl]):
            st = l.strip()
            if not st or st.startswith('//') or st.startswith('import') or st.startswith('package'):
                continue
            code = l.split('//')[0] if '//' in l and '"' not in l.split('//')[0][-3:] else l
            for pat, rep in OPS:
                for m in re.finditer(pat, code):
                    nl = code[:m.start()] + re.sub(pat, rep, code[m.start():m.end()], count=1) + code[m.end():] + l[len(code):]
                    if nl != l:
                        muts.append((f, i, l, nl))
    return muts

def run(cmd, cwd, timeout, env=None):
    try:
        p = subprocess.run(cmd, cwd=cwd, env=env or ENV, stdout=subprocess.PIPE, stderr=subprocess.STDOUT, timeout=timeout)
        return p.returncode, p.stdout.decode('latin1')
    except subprocess.TimeoutExpired as e:
        return 124, (e.stdout or b'').decode('latin1')

def work(w, q, out, lock):
    d = tempfile.mkdtemp(prefix='vmutc%d.' % w, dir='/tmp')
    try:
        lib = d + '/repo'
        os.makedirs(lib)
        subprocess.run('git -C %s archive HEAD | tar -x -C %s' % (REPO, lib), shell=True, check=True)
        outdir = d + '/out'
        os.makedirs(outdir)
        shutil.copy(VERIF + '/known_findings.json', outdir)
        os.makedirs(outdir + '/baseline'); os.makedirs(outdir + '/grammars')
        mod = d + '/go.mod'
        open(mod, 'w').write(open(VERIF + '/harness/go.mod').read().replace('=> /repo', '=> ' + lib))
        shutil.copy(VERIF + '/harness/go.sum', d + '/go.sum')
        while True:
            try:
                idx, (f, i, old, new) = q.get_nowait()
            except queue.Empty:
                return
            orig = open(os.path.join(REPO, f)).read()
            src = orig.split('\n')
            src[i] = new
            open(lib + '/' + f, 'w').write('\n'.join(src))
            res = {'id': idx, 'file': f, 'line': i + 1, 'old': old.strip(), 'new': new.strip()}
            t0 = time.time()
            rc, o = run(['go', 'test', '-vet=off', '-count=1', '-timeout', '120s', '.'], lib, 180)
            if rc != 0:
                res['status'] = 'invalid' if ('[build failed]' in o or 'syntax error' in o or 'undefined' in o or 'declared and not used' in o or 'mismatched types' in o or 'cannot use' in o or 'invalid operation' in o) else ('suite-hang' if rc == 124 else 'suite')
            else:
                order = XSS_ORDER if f in ('html5.go', 'xss.go', 'xss_helpers.go') else SQL_ORDER
                binp = d + '/props.test'
                rc, o = run(['go', 'test', '-modfile=' + mod, '-c', '-tags', 'verif', '-vet=off', '-o', binp, './props'], VERIF + '/harness', 300)
                if rc != 0:
                    res['status'] = 'killed'; res['by'] = ['HOOKBUILD']
                else:
                    env = dict(ENV, VERIF_DIR=outdir, VERIF_BASELINE_DIR=VERIF, VERIF_REPO=lib, VERIF_TIER='quick', VERIF_SEED='1', VERIF_WORKERS=str(WPM), GOMAXPROCS=str(WPM))
                    by = []
                    for cid in order:
                        rc, o = run([binp, '-test.run', '^Test%s$' % cid, '-test.timeout', '20m'], VERIF + '/harness/props', 1500, env)
                        if 'VIOLATION property=' in o:
                            m = re.search(r'FAILED-CASE [^\n]{0,400}', o)
                            by.append(cid); res['first_failure'] = m.group(0) if m else ''
                            break
                        if rc != 0:
                            by.append(cid + ':INCONCLUSIVE'); res['first_failure'] = o[-300:]
                            break
                    res['status'] = 'killed' if by else 'SURVIVED'
                    res['by'] = by
                    shutil.rmtree(outdir + '/replays', ignore_errors=True)
            res['secs'] = round(time.time() - t0, 1)
            open(lib + '/' + f, 'w').write(orig)
            with lock:
                out.write(json.dumps(res) + '\n'); out.flush()
    finally:
        shutil.rmtree(d, ignore_errors=True)

muts = gen()
FILTER = os.path.join(HERE, 'pilot', 'suite_passing_mutants.json')
if os.environ.get('MUT_ALL') is None and os.path.exists(FILTER):
    # only the mutants a previous campaign found to compile and pass the repository's tests
    want = {(d['file'], d['old'], d['new']) for d in json.load(open(FILTER))}
    muts = [m for m in muts if (m[0], m[2].strip(), m[3].strip()) in want]
if os.environ.get('MUT_FILES'):
    keepf = set(os.environ['MUT_FILES'].split(','))
    muts = [m for m in muts if m[0] in keepf]
muts = muts[int(os.environ.get('MUT_SKIP', '0')):][:LIMIT]
print(len(muts), 'mutants', file=sys.stderr)
q = queue.Queue()
for x in enumerate(muts):
    q.put(x)
lock = threading.Lock()
out = open(HERE + '/' + os.environ.get('MUT_OUT', 'mutation_results.jsonl'), 'w')
ts = [threading.Thread(target=work, args=(w, q, out, lock)) for w in range(PAR)]
[t.start() for t in ts]; [t.join() for t in ts]
