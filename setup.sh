#!/bin/bash
# Offline setup: warm the Go build cache for the harness (plain and -race) from files on disk only.
set -e
cd "$(dirname "$0")/harness"
export GOFLAGS=-mod=mod GOPROXY=off GOSUMDB=off GOTOOLCHAIN=local
mkdir -p ../.bin ../evidence ../replays
go test -c -tags verif -vet=off -o ../.bin/warm.test ./props
go test -c -race -tags verif -vet=off -o ../.bin/warm.race.test ./props
rm -f ../.bin/warm.test ../.bin/warm.race.test
echo setup ok
